"""Spec-side reference for the External Term Format and Erlang's term order, written from the Erlang
documentation (erl_ext_dist, reference manual "Term Comparisons"), NOT from the Rust code.
Used as the property oracle of C01/C03/C10/C11/C12/C13 and by the generators.

Terms (as the library represents them) travel in the text format of harness/src/termio.rs; here they are
parsed into tuples ('a', bytes) ... ; Erlang VALUES are a separate representation (see denote)."""
import struct, zlib
from fractions import Fraction

# ------------------------------------------------------------------------------------------
# text format <-> AST

def unhex(s):
    return b"" if s in (".", "-") else bytes.fromhex(s)


def hx(b):
    return b.hex() if b else "."


class Toks:
    def __init__(self, s):
        self.t = s.split()
        self.i = 0

    def next(self):
        v = self.t[self.i]
        self.i += 1
        return v

    def done(self):
        return self.i >= len(self.t)


def _loc(t):
    s = t.next()
    return None if s == "-" else unhex(s)


def _pid(t):
    return (unhex(t.next()), int(t.next()), int(t.next()), int(t.next()), _loc(t))


def read_term(t):
    k = t.next()
    if k == "a":
        return ("a", unhex(t.next()))
    if k == "i":
        return ("i", int(t.next()))
    if k == "f":
        return ("f", int(t.next(), 16))
    if k == "p":
        return ("p",) + _pid(t)
    if k == "o":
        return ("o", unhex(t.next()), int(t.next()), int(t.next()), _loc(t))
    if k == "r":
        node, cr, n = unhex(t.next()), int(t.next()), int(t.next())
        ids = [int(t.next()) for _ in range(n)]
        return ("r", node, cr, ids, _loc(t))
    if k == "b":
        return ("b", unhex(t.next()))
    if k == "B":
        return ("B", unhex(t.next()), int(t.next()))
    if k == "s":
        return ("s", unhex(t.next()))
    if k == "l":
        n = int(t.next())
        return ("l", [read_term(t) for _ in range(n)])
    if k == "L":
        n = int(t.next())
        el = [read_term(t) for _ in range(n)]
        return ("L", el, read_term(t))
    if k == "m":
        n = int(t.next())
        return ("m", [(read_term(t), read_term(t)) for _ in range(n)])
    if k == "t":
        n = int(t.next())
        return ("t", [read_term(t) for _ in range(n)])
    if k == "g":
        return ("g", t.next() == "1", unhex(t.next()))
    if k == "e":
        return ("e", unhex(t.next()), unhex(t.next()), int(t.next()))
    if k == "u":
        ar, uniq, idx, nf, m, oi, ou = int(t.next()), unhex(t.next()), int(t.next()), int(t.next()), unhex(t.next()), int(t.next()), int(t.next())
        p = _pid(t)
        n = int(t.next())
        return ("u", ar, uniq, idx, nf, m, oi, ou, p, [read_term(t) for _ in range(n)])
    if k == "n":
        return ("n",)
    raise ValueError("bad term token " + k)


def parse_term(s):
    return read_term(Toks(s))


def show(t):
    k = t[0]
    if k == "a":
        return "a " + hx(t[1])
    if k == "i":
        return "i %d" % t[1]
    if k == "f":
        return "f %016x" % t[1]
    if k == "p":
        return "p %s %d %d %d %s" % (hx(t[1]), t[2], t[3], t[4], "-" if t[5] is None else hx(t[5]))
    if k == "o":
        return "o %s %d %d %s" % (hx(t[1]), t[2], t[3], "-" if t[4] is None else hx(t[4]))
    if k == "r":
        return "r %s %d %d%s %s" % (hx(t[1]), t[2], len(t[3]), "".join(" %d" % i for i in t[3]), "-" if t[4] is None else hx(t[4]))
    if k == "b":
        return "b " + hx(t[1])
    if k == "B":
        return "B %s %d" % (hx(t[1]), t[2])
    if k == "s":
        return "s " + hx(t[1])
    if k == "l":
        return " ".join(["l %d" % len(t[1])] + [show(x) for x in t[1]])
    if k == "L":
        return " ".join(["L %d" % len(t[1])] + [show(x) for x in t[1]] + [show(t[2])])
    if k == "m":
        return " ".join(["m %d" % len(t[1])] + [show(a) + " " + show(b) for a, b in t[1]])
    if k == "t":
        return " ".join(["t %d" % len(t[1])] + [show(x) for x in t[1]])
    if k == "g":
        return "g %d %s" % (1 if t[1] else 0, hx(t[2]))
    if k == "e":
        return "e %s %s %d" % (hx(t[1]), hx(t[2]), t[3])
    if k == "u":
        p = t[8]
        return " ".join(["u %d %s %d %d %s %d %d %s %d %d %d %s %d" % (t[1], hx(t[2]), t[3], t[4], hx(t[5]), t[6], t[7], hx(p[0]), p[1], p[2], p[3],
                                                                       "-" if p[4] is None else hx(p[4]), len(t[9]))] + [show(x) for x in t[9]])
    if k == "n":
        return "n"
    raise ValueError(k)


# ------------------------------------------------------------------------------------------
# Erlang values.  ('int', n) ('float', bits) ('atom', utf8 bytes) ('pid', node, id, serial, creation)
# ('port', node, id, creation) ('ref', node, creation, (ids)) ('bits', bytes, nbits) ('list', (elems), tail)
# ('tuple', (elems)) ('map', frozenset of (k, v)) ('extfun', m, f, arity)
# ('intfun', arity, uniq, index, numfree, module, oldindex, olduniq, pidvalue, (free)) ('nil',)

NIL = ("nil",)


def mklist(elems, tail=NIL):
    elems = tuple(elems)
    if not elems:
        return tail
    if tail[0] == "list":          # flatten [a | [b | T]] = [a, b | T]
        return ("list", elems + tail[1], tail[2])
    return ("list", elems, tail)


def big_value(neg, digits):
    n = int.from_bytes(digits, "little")
    return -n if neg else n


def denote(t):
    k = t[0]
    if k == "a":
        return ("atom", t[1])
    if k == "i":
        return ("int", t[1])
    if k == "g":
        return ("int", big_value(t[1], t[2]))
    if k == "f":
        return ("float", t[1])
    if k == "p":
        return ("pid", t[1], t[2], t[3], t[4])
    if k == "o":
        return ("port", t[1], t[2], t[3])
    if k == "r":
        return ("ref", t[1], t[2], tuple(t[3]))
    if k in ("b", "s"):
        return ("bits", t[1], 8 * len(t[1]))
    if k == "B":
        return ("bits", t[1], 8 * len(t[1]) - (8 - t[2]) if t[1] else 0)
    if k == "l":
        return mklist([denote(x) for x in t[1]])
    if k == "L":
        return mklist([denote(x) for x in t[1]], denote(t[2]))
    if k == "m":
        return ("map", frozenset((denote(a), denote(b)) for a, b in t[1]))
    if k == "t":
        return ("tuple", tuple(denote(x) for x in t[1]))
    if k == "e":
        return ("extfun", t[1], t[2], t[3])
    if k == "u":
        p = t[8]
        return ("intfun", t[1], t[2], t[3], t[4], t[5], t[6], t[7], ("pid", p[0], p[1], p[2], p[3]), tuple(denote(x) for x in t[9]))
    if k == "n":
        return NIL
    raise ValueError(k)


# ------------------------------------------------------------------------------------------
# independent reader of the External Term Format (erl_ext_dist), all tags

class EtfError(Exception):
    pass


class Reader:
    def __init__(self, data):
        self.d = data
        self.i = 0

    def take(self, n):
        if self.i + n > len(self.d):
            raise EtfError("eof")
        v = self.d[self.i:self.i + n]
        self.i += n
        return v

    def u(self, n):
        return int.from_bytes(self.take(n), "big")


def latin1_to_utf8(b):
    return b.decode("latin-1").encode("utf-8")


def spec_read_term(r, depth=0):
    tag = r.u(1)
    if tag == 97:
        return ("int", r.u(1))
    if tag == 98:
        return ("int", struct.unpack(">i", r.take(4))[0])
    if tag == 99:
        txt = r.take(31).split(b"\0")[0]
        return ("float", struct.unpack(">Q", struct.pack(">d", float(txt)))[0])
    if tag == 70:
        return ("float", r.u(8))
    if tag in (100, 115):
        n = r.u(2 if tag == 100 else 1)
        return ("atom", latin1_to_utf8(r.take(n)))
    if tag in (118, 119):
        n = r.u(2 if tag == 118 else 1)
        b = r.take(n)
        b.decode("utf-8")
        return ("atom", b)
    if tag in (104, 105):
        n = r.u(1 if tag == 104 else 4)
        return ("tuple", tuple(spec_read_term(r, depth + 1) for _ in range(n)))
    if tag == 82:
        i = r.u(1)
        refs = getattr(r, "refs", None)
        if refs is None or i >= len(refs):
            raise EtfError("atom cache reference %d without a header entry" % i)
        return ("atom", refs[i])
    if tag == 106:
        return NIL
    if tag == 107:
        n = r.u(2)
        return mklist([("int", c) for c in r.take(n)])
    if tag == 108:
        n = r.u(4)
        el = [spec_read_term(r, depth + 1) for _ in range(n)]
        return mklist(el, spec_read_term(r, depth + 1))
    if tag == 109:
        n = r.u(4)
        return ("bits", r.take(n), 8 * n)
    if tag == 77:
        n = r.u(4)
        bits = r.u(1)
        b = r.take(n)
        if not (1 <= bits <= 8) or (n == 0 and bits != 8):
            raise EtfError("bits")
        return ("bits", b, 8 * n - (8 - bits) if n else 0)
    if tag in (110, 111):
        n = r.u(1 if tag == 110 else 4)
        sign = r.u(1)
        return ("int", big_value(sign != 0, r.take(n)))
    if tag == 116:
        n = r.u(4)
        kv = []
        for _ in range(n):
            k = spec_read_term(r, depth + 1)
            v = spec_read_term(r, depth + 1)
            kv.append((k, v))
        return ("map", frozenset(kv)) if len({erl_key(k) for k, _ in kv}) == len(kv) else ("map-dupkeys", tuple(kv))
    if tag in (88, 103):
        node = atom_of(spec_read_term(r, depth + 1))
        i, s = r.u(4), r.u(4)
        c = r.u(4 if tag == 88 else 1)
        return ("pid", node, i, s, c)
    if tag in (120, 89, 102):
        node = atom_of(spec_read_term(r, depth + 1))
        i = r.u(8 if tag == 120 else 4)
        c = r.u(1 if tag == 102 else 4)
        return ("port", node, i, c)
    if tag == 101:
        node = atom_of(spec_read_term(r, depth + 1))
        i = r.u(4)
        c = r.u(1)
        return ("ref", node, c, (i,))
    if tag in (114, 90):
        n = r.u(2)
        node = atom_of(spec_read_term(r, depth + 1))
        c = r.u(1 if tag == 114 else 4)
        return ("ref", node, c, tuple(r.u(4) for _ in range(n)))
    if tag == 113:
        m = atom_of(spec_read_term(r, depth + 1))
        f = atom_of(spec_read_term(r, depth + 1))
        a = spec_read_term(r, depth + 1)
        if a[0] != "int" or not 0 <= a[1] <= 255:
            raise EtfError("arity")
        return ("extfun", m, f, a[1])
    if tag == 112:
        start = r.i
        size = r.u(4)
        ar = r.u(1)
        uniq = r.take(16)
        idx = r.u(4)
        nf = r.u(4)
        m = atom_of(spec_read_term(r, depth + 1))
        oi = spec_read_term(r, depth + 1)
        ou = spec_read_term(r, depth + 1)
        p = spec_read_term(r, depth + 1)
        if oi[0] != "int" or ou[0] != "int" or p[0] != "pid":
            raise EtfError("fun fields")
        free = tuple(spec_read_term(r, depth + 1) for _ in range(nf))
        if r.i - start != size:
            raise EtfError("NEW_FUN_EXT Size field %d but the fun occupies %d bytes" % (size, r.i - start))
        return ("intfun", ar, uniq, idx, nf, m, oi[1], ou[1], p, free)
    if tag == 121:
        r.take(8)
        return spec_read_term(r, depth + 1)
    if tag == 80:
        usz = r.u(4)
        d = zlib.decompressobj()
        plain = d.decompress(r.d[r.i:])
        if not d.eof:
            raise EtfError("zlib")
        r.i = len(r.d) - len(d.unused_data)
        if len(plain) != usz:
            raise EtfError("uncompressed size mismatch")
        rr = Reader(plain)
        v = spec_read_term(rr, depth + 1)
        if rr.i != len(plain):
            raise EtfError("trailing bytes in compressed section")
        return v
    raise EtfError("unknown tag %d" % tag)


def spec_read_dist_message(data, cache):
    """Distribution header per erl_ext_dist: 131 68 N Flags AtomCacheRefs, then control [and payload] terms.
    `cache` (dict slot -> atom bytes, slot = segment*256 + internal index) persists across messages.
    Returns (control value, payload value or None)."""
    r = Reader(data)
    if r.u(1) != 131:
        raise EtfError("version")
    r.refs = []
    if r.d[r.i:r.i + 1] == bytes([68]):
        r.u(1)
        n = r.u(1)
        if n:
            flags = r.take(n // 2 + 1)
            nib = lambda k: (flags[k // 2] >> (4 if k % 2 else 0)) & 0xf  # noqa
            long_atoms = bool(nib(n) & 1)
            for i in range(n):
                f = nib(i)
                slot = (f & 7) * 256 + r.u(1)
                if f & 8:
                    ln = r.u(2 if long_atoms else 1)
                    txt = r.take(ln)
                    txt.decode("utf-8")
                    cache[slot] = txt
                if slot not in cache:
                    raise EtfError("reference to an empty cache slot")
                r.refs.append(cache[slot])
    ctl = spec_read_term(r)
    pl = None
    if r.i < len(data):
        pl = spec_read_term(r)
    if r.i != len(data):
        raise EtfError("trailing")
    return ctl, pl


def atom_of(v):
    if v[0] != "atom":
        raise EtfError("atom expected")
    return v[1]


def spec_decode(data):
    """data incl. version byte -> value; raises EtfError / UnicodeDecodeError / ValueError"""
    r = Reader(data)
    if r.u(1) != 131:
        raise EtfError("version")
    v = spec_read_term(r)
    if r.i != len(data):
        raise EtfError("trailing")
    return v


# ------------------------------------------------------------------------------------------
# Erlang term order on values (exact)

def float_frac(bits):
    s = -1 if bits >> 63 else 1
    e = (bits >> 52) & 0x7ff
    f = bits & ((1 << 52) - 1)
    if e == 0x7ff:
        return None
    if e == 0:
        return s * Fraction(f, 1 << 1074)
    return s * Fraction((1 << 52) + f) * (Fraction(2) ** (e - 1075))


RANK = {"int": 0, "float": 0, "atom": 1, "ref": 2, "extfun": 3, "intfun": 3, "port": 4, "pid": 5, "tuple": 6, "map": 7,
        "nil": 8, "list": 9, "bits": 10}


def num(v):
    return Fraction(v[1]) if v[0] == "int" else float_frac(v[1])


def cmp3(a, b):
    return (a > b) - (a < b)


def erl_key(v):
    """hashable key identifying a value up to Erlang's =:= (exact equality; ints and floats distinct)"""
    return v


def bits_cmp(a, b):
    (ba, na), (bb, nb) = a, b
    ia = int.from_bytes(ba, "big") >> (8 * len(ba) - na) if na else 0
    ib = int.from_bytes(bb, "big") >> (8 * len(bb) - nb) if nb else 0
    m = min(na, nb)
    c = cmp3(ia >> (na - m), ib >> (nb - m))
    return c if c else cmp3(na, nb)


def erl_cmp(a, b, ident=None):
    """Erlang term order (==-based: 1 == 1.0). Identifier/fun order inside a kind is lexicographic on the
    identifying fields (the property leaves it open; only equality-consistency is claimed there)."""
    ra, rb = RANK[a[0]], RANK[b[0]]
    if ra != rb:
        return cmp3(ra, rb)
    k = a[0]
    if ra == 0:
        return cmp3(num(a), num(b))
    if k == "atom":
        return cmp3(a[1].decode("utf-8"), b[1].decode("utf-8"))
    if ra == 3:
        if a[0] != b[0]:
            return -1 if a[0] == "extfun" else 1
        if k == "extfun":
            return cmp3(a[1:], b[1:])
        return cmp3((a[5], a[6], a[7], a[3], a[2], a[8][1:]), (b[5], b[6], b[7], b[3], b[2], b[8][1:])) or erl_cmp_seq(a[9], b[9]) or cmp3(len(a[9]), len(b[9]))
    if k in ("ref", "port", "pid"):
        return cmp3(a[1:], b[1:])
    if k == "tuple":
        return cmp3(len(a[1]), len(b[1])) or erl_cmp_seq(a[1], b[1])
    if k == "map":
        if len(a[1]) != len(b[1]):
            return cmp3(len(a[1]), len(b[1]))
        ka = sorted((k_ for k_, _ in a[1]), key=cmp_key_for_maps)
        kb = sorted((k_ for k_, _ in b[1]), key=cmp_key_for_maps)
        for x, y in zip(ka, kb):
            c = erl_cmp_exact(x, y)
            if c:
                return c
        da, db = dict(a[1]), dict(b[1])
        for x, y in zip(ka, kb):
            c = erl_cmp(da[x], db[y])
            if c:
                return c
        return 0
    if k == "nil":
        return 0
    if k == "list":
        ea, eb = a[1], b[1]
        for x, y in zip(ea, eb):
            c = erl_cmp(x, y)
            if c:
                return c
        if len(ea) == len(eb):
            return erl_cmp(a[2], b[2])
        if len(ea) < len(eb):
            return erl_cmp(a[2], ("list", eb[len(ea):], b[2]))
        return erl_cmp(("list", ea[len(eb):], a[2]), b[2])
    if k == "bits":
        return bits_cmp((a[1], a[2]), (b[1], b[2]))
    raise ValueError(k)


def erl_cmp_seq(xs, ys):
    for x, y in zip(xs, ys):
        c = erl_cmp(x, y)
        if c:
            return c
    return 0


def erl_cmp_exact(a, b):
    """order used for map keys: like erl_cmp but integers sort before floats that compare equal"""
    if RANK[a[0]] == 0 and RANK[b[0]] == 0:
        c = cmp3(num(a), num(b))
        if c:
            return c
        return cmp3(0 if a[0] == "int" else 1, 0 if b[0] == "int" else 1)
    if a[0] == b[0] and a[0] in ("tuple",):
        return cmp3(len(a[1]), len(b[1])) or next((c for c in (erl_cmp_exact(x, y) for x, y in zip(a[1], b[1])) if c), 0)
    return erl_cmp(a, b)


import functools
cmp_key_for_maps = functools.cmp_to_key(erl_cmp_exact)


def has_nan(v):
    if v[0] == "float":
        return float_frac(v[1]) is None
    if v[0] in ("tuple",):
        return any(has_nan(x) for x in v[1])
    if v[0] == "list":
        return any(has_nan(x) for x in v[1]) or has_nan(v[2])
    if v[0] == "map":
        return any(has_nan(k) or has_nan(x) for k, x in v[1])
    if v[0] == "intfun":
        return any(has_nan(x) for x in v[9])
    return False
