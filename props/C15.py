"""C15 — serde round trip, in memory and across the wire. Domain `serde`."""
import struct
import etf
import vlib

ID = "C15"
GEN_FILES = ["Tags.v", "Limits.v", "Ranks.v", "DecoderArms.v"]
RULE = ("types: the harness's registry of representative Rust types (every integer width, f32/f64, bool, char, String, unit, Option, tuples, "
        "Vec, HashMap/BTreeMap with string/integer/char keys, named structs, unit / newtype / tuple structs, a byte buffer, derive(ElixirStruct) "
        "structs, enums with all four variant shapes, and nestings), read back from the harness so generator and harness cannot drift; values: per type, every integer at its "
        "minimum, maximum, 0, +-1, the 32-bit and 63-bit boundaries and random values over the full range, floats incl. subnormal, "
        "infinities and negative zero, chars from every UTF-8 length class incl. non-BMP, strings empty/ASCII/multi-byte/long, options "
        "None/Some, empty and non-empty sequences and maps; each value goes through to_term/from_term and to_bytes/from_bytes; "
        "from_term also runs on the serialised term with one node replaced by an alternative representation of the same value or by a "
        "wrong type, with map entries added or removed, and with tuple elements added or dropped. distinct = distinct case line; "
        "non-trivial = value with more than one node")
ASSUMPTIONS = ["the mapping from Rust types to Serializer/Deserializer calls is serde's data model (std impls and serde_derive 1.x): trusted",
               "f32 -> f64 -> f32 is the identity (IEEE 754 widening is exact); the model takes the narrowing as an oracle",
               "cargo feature elixir-interop is off in the harness build (the model carries it as a parameter; theorems cover both settings)",
               "excluded by the property: directly nested options, Option of a type whose serialised form can be the none atom, NaN payloads"]


# ------------------------------------------------------------------------------------------
# type descriptors (prefix token format) <-> Python structure

class P:
    def __init__(self, toks):
        self.t, self.i = toks, 0

    def next(self):
        v = self.t[self.i]
        self.i += 1
        return v


INTS = {"I8": (-2**7, 2**7 - 1), "I16": (-2**15, 2**15 - 1), "I32": (-2**31, 2**31 - 1), "I64": (-2**63, 2**63 - 1),
        "U8": (0, 2**8 - 1), "U16": (0, 2**16 - 1), "U32": (0, 2**32 - 1), "U64": (0, 2**64 - 1)}


def rd_ty(p):
    k = p.next()
    if k in INTS or k in ("B", "F32", "F64", "C", "Str", "Unit", "By"):
        return (k,)
    if k == "US":
        return ("US", etf.unhex(p.next()))
    if k == "NT":
        return ("NT", rd_ty(p))
    if k == "TS":
        return ("TS", [rd_ty(p) for _ in range(int(p.next()))])
    if k == "O":
        return ("O", rd_ty(p))
    if k == "T":
        return ("T", [rd_ty(p) for _ in range(int(p.next()))])
    if k == "V":
        return ("V", rd_ty(p))
    if k == "M":
        return ("M", rd_ty(p), rd_ty(p))
    if k == "R":
        return ("R", [(etf.unhex(p.next()), rd_ty(p)) for _ in range(int(p.next()))])
    if k == "X":
        m = etf.unhex(p.next())
        return ("X", m, [(etf.unhex(p.next()), rd_ty(p)) for _ in range(int(p.next()))])
    if k == "E":
        vs = []
        for _ in range(int(p.next())):
            name = etf.unhex(p.next())
            sh = p.next()
            if sh == "pu":
                vs.append((name, ("pu",)))
            elif sh == "pn":
                vs.append((name, ("pn", rd_ty(p))))
            elif sh == "pt":
                vs.append((name, ("pt", [rd_ty(p) for _ in range(int(p.next()))])))
            else:
                vs.append((name, ("ps", [(etf.unhex(p.next()), rd_ty(p)) for _ in range(int(p.next()))])))
        return ("E", vs)
    raise ValueError(k)


# ------------------------------------------------------------------------------------------
# values: Python structures mirroring the text format

def show_val(v):
    k = v[0]
    if k == "b":
        return "b %d" % v[1]
    if k == "z":
        return "z %d" % v[1]
    if k == "f":
        return "f %016x" % v[1]
    if k in ("c", "s"):
        return "%s %s" % (k, etf.hx(v[1]))
    if k in ("u", "N"):
        return k
    if k == "S":
        return "S " + show_val(v[1])
    if k in ("T", "Q", "R"):
        return " ".join(["%s %d" % (k, len(v[1]))] + [show_val(x) for x in v[1]])
    if k == "M":
        es = sorted((show_val(a), show_val(b)) for a, b in v[1])
        return " ".join(["M %d" % len(es)] + ["%s %s" % e for e in es])
    if k == "E":
        return " ".join(["E %d %d" % (v[1], len(v[2]))] + [show_val(x) for x in v[2]])
    raise ValueError(k)


F64_POOL = [0.0, -0.0, 1.0, -1.0, 1.5, 3.141592653589793, 1e-310, 5e-324, 1.7976931348623157e308, float("inf"), float("-inf"), 2.0**53, 0.1]
F32_POOL = [0.0, -0.0, 1.0, -2.5, 3.4028234663852886e38, 1.401298464324817e-45, float("inf"), 0.100000001490116119384765625, 16777216.0]
CHARS = ["a", "0", " ", "\x00", "\x7f", "\u00e9", "\u00df", "\u07ff", "\u0800", "\u65e5", "\ud7ff", "\ue000", "\uffff", "\U00010000", "\U0001f600", "\U0010ffff"]
STRS = ["", "a", "hello", "héllo wörld", "日本語", "nil", "undefined", "true", "\U0001f600x", "x" * 300, "\x00\x01"]


def fbits(x):
    return struct.unpack(">Q", struct.pack(">d", x))[0]


def gen_int(rng, lo, hi):
    cands = [lo, hi, 0, 1, -1, 127, 128, 255, 256, 2**31 - 1, 2**31, -2**31, -2**31 - 1, 2**32 - 1, 2**32, 2**53, 2**63 - 1, 2**63, -2**63, 2**64 - 1,
             lo + 1, hi - 1]
    cands = [c for c in cands if lo <= c <= hi]
    r = rng.random()
    if r < 0.55:
        return rng.choice(cands)
    if r < 0.75:
        return rng.randrange(max(lo, -300), min(hi, 300) + 1)
    return rng.randrange(lo, hi + 1)


def gen_val(rng, ty, depth=0):
    k = ty[0]
    if k in INTS:
        return ("z", gen_int(rng, *INTS[k]))
    if k == "B":
        return ("b", rng.randrange(2))
    if k == "F64":
        return ("f", fbits(rng.choice(F64_POOL + [rng.uniform(-1e9, 1e9), rng.random() * 10 ** rng.randrange(-300, 300)])))
    if k == "F32":
        x = rng.choice(F32_POOL + [struct.unpack(">f", struct.pack(">f", rng.uniform(-1e6, 1e6)))[0]])
        return ("f", fbits(x))
    if k == "C":
        return ("c", rng.choice(CHARS + [chr(rng.choice([rng.randrange(0x20, 0x7f), rng.randrange(0x80, 0x800), rng.randrange(0xe000, 0x10000),
                                                          rng.randrange(0x10000, 0x110000)]))]).encode("utf-8"))
    if k == "Str":
        return ("s", rng.choice(STRS).encode())
    if k in ("Unit", "US"):
        return ("u",)
    if k == "By":
        return ("s", rng.choice([b"", b"\x00", b"\xff\xfe", b"abc", "h\u00e9".encode(), bytes(rng.randrange(256) for _ in range(rng.choice([1, 5, 70, 300])))]))
    if k == "NT":
        return ("T", [gen_val(rng, ty[1], depth + 1)])
    if k == "TS":
        return ("T", [gen_val(rng, t, depth + 1) for t in ty[1]])
    if k == "O":
        return ("N",) if rng.random() < 0.3 else ("S", gen_val(rng, ty[1], depth + 1))
    if k == "T":
        return ("T", [gen_val(rng, t, depth + 1) for t in ty[1]])
    if k == "V":
        n = rng.choice([0, 0, 1, 2, 3, 5]) if depth < 3 else rng.choice([0, 1])
        return ("Q", [gen_val(rng, ty[1], depth + 1) for _ in range(n)])
    if k == "M":
        n = rng.choice([0, 1, 2, 3, 4]) if depth < 3 else rng.choice([0, 1])
        d = {}
        for _ in range(n):
            kv = gen_val(rng, ty[1], depth + 1)
            d[show_val(kv)] = (kv, gen_val(rng, ty[2], depth + 1))
        return ("M", list(d.values()))
    if k in ("R", "X"):
        fs = ty[1] if k == "R" else ty[2]
        return ("R", [gen_val(rng, t, depth + 1) for _, t in fs])
    if k == "E":
        i = rng.randrange(len(ty[1]))
        sh = ty[1][i][1]
        if sh[0] == "pu":
            return ("E", i, [])
        if sh[0] == "pn":
            return ("E", i, [gen_val(rng, sh[1], depth + 1)])
        if sh[0] == "pt":
            return ("E", i, [gen_val(rng, t, depth + 1) for t in sh[1]])
        return ("E", i, [gen_val(rng, t, depth + 1) for _, t in sh[1]])
    raise ValueError(k)


def edge_vals(ty, depth=0):
    """a small deterministic set per type: extremes, empties, every variant"""
    k = ty[0]
    if k in INTS:
        lo, hi = INTS[k]
        return [("z", n) for n in sorted({lo, hi, 0, min(hi, 2**31), max(lo, -2**31 - 1), min(hi, 2**63 - 1), min(hi, 2**31 - 1)})]
    if k == "B":
        return [("b", 0), ("b", 1)]
    if k == "F64":
        return [("f", fbits(x)) for x in (0.0, -0.0, 5e-324, float("inf"))]
    if k == "F32":
        return [("f", fbits(x)) for x in (0.0, 1.401298464324817e-45, 3.4028234663852886e38)]
    if k == "C":
        return [("c", c.encode()) for c in ("a", "\u00e9", "\u65e5", "\U0001f600")]
    if k == "Str":
        return [("s", b""), ("s", "h\u00e9".encode())]
    if k in ("Unit", "US"):
        return [("u",)]
    if k == "By":
        return [("s", b""), ("s", b"\xff\x00\x80"), ("s", b"ok")]
    if k == "NT":
        return [("T", [x]) for x in edge_vals(ty[1], depth + 1)[: (3 if depth < 2 else 1)]]
    if k == "TS":
        cols = [edge_vals(t, depth + 1)[: (3 if depth < 2 else 1)] for t in ty[1]]
        return [("T", [c[i % len(c)] for c in cols]) for i in range(max(len(c) for c in cols))]
    sub = lambda t: edge_vals(t, depth + 1)[: (3 if depth < 2 else 1)]  # noqa
    if k == "O":
        return [("N",)] + [("S", x) for x in sub(ty[1])]
    if k == "T":
        cols = [sub(t) for t in ty[1]]
        return [("T", [c[i % len(c)] for c in cols]) for i in range(max(len(c) for c in cols))]
    if k == "V":
        xs = sub(ty[1])
        return [("Q", []), ("Q", xs[:1]), ("Q", xs)]
    if k == "M":
        ks, vs = sub(ty[1]), sub(ty[2])
        return [("M", []), ("M", [(ks[0], vs[0])]), ("M", [(kk, vs[i % len(vs)]) for i, kk in enumerate(ks)])]
    if k in ("R", "X"):
        fs = ty[1] if k == "R" else ty[2]
        cols = [sub(t) for _, t in fs]
        return [("R", [c[i % len(c)] for c in cols]) for i in range(max(len(c) for c in cols))]
    if k == "E":
        out = []
        for i, (_, sh) in enumerate(ty[1]):
            if sh[0] == "pu":
                out.append(("E", i, []))
            elif sh[0] == "pn":
                out += [("E", i, [x]) for x in sub(sh[1])[:2]]
            else:
                ts = sh[1] if sh[0] == "pt" else [t for _, t in sh[1]]
                cols = [sub(t) for t in ts]
                out += [("E", i, [c[j % len(c)] for c in cols]) for j in range(2)]
        return out
    raise ValueError(k)


def val_size(v):
    k = v[0]
    if k == "S":
        return 1 + val_size(v[1])
    if k in ("T", "Q", "R"):
        return 1 + sum(val_size(x) for x in v[1])
    if k == "M":
        return 1 + sum(val_size(a) + val_size(b) for a, b in v[1])
    if k == "E":
        return 1 + sum(val_size(x) for x in v[2])
    return 1


# ------------------------------------------------------------------------------------------
# spec side: the term a value is documented to map to (README "Type mapping" + serde data model)

A = lambda b: ("a", b)  # noqa


def spec_ser(ty, v):
    k = ty[0]
    if k in INTS:
        return etf_int(v[1])
    if k == "B":
        return A(b"true" if v[1] else b"false")
    if k in ("F32", "F64"):
        return ("f", v[1])
    if k == "C":
        return ("s", v[1])
    if k == "Str":
        return ("b", v[1])
    if k == "Unit":
        return A(b"nil")
    if k == "US":        # a unit struct is the atom of its name
        return A(ty[1])
    if k == "By":        # bytes are a binary
        return ("b", v[1])
    if k == "NT":        # a newtype struct is its content
        return spec_ser(ty[1], v[1][0])
    if k == "TS":        # a tuple struct is a tuple
        return ("t", [spec_ser(t, x) for t, x in zip(ty[1], v[1])])
    if k == "O":
        return A(b"undefined") if v[0] == "N" else spec_ser(ty[1], v[1])
    if k == "T":
        return ("t", [spec_ser(t, x) for t, x in zip(ty[1], v[1])])
    if k == "V":
        return ("l", [spec_ser(ty[1], x) for x in v[1]])
    if k == "M":
        return ("m", [(spec_ser(ty[1], a), spec_ser(ty[2], b)) for a, b in v[1]])
    if k == "R":
        return ("m", [(("b", n), spec_ser(t, x)) for (n, t), x in zip(ty[1], v[1])])
    if k == "X":
        return ("m", [(A(b"__struct__"), A(b"Elixir." + ty[1]))] + [(A(n), spec_ser(t, x)) for (n, t), x in zip(ty[2], v[1])])
    if k == "E":
        name, sh = ty[1][v[1]]
        if sh[0] == "pu":
            return A(name)
        if sh[0] == "pn":
            return ("t", [A(name), spec_ser(sh[1], v[2][0])])
        if sh[0] == "pt":
            return ("t", [A(name)] + [spec_ser(t, x) for t, x in zip(sh[1], v[2])])
        return ("t", [A(name), ("m", [(("b", n), spec_ser(t, x)) for (n, t), x in zip(sh[1], v[2])])])
    raise ValueError(k)


def etf_int(n):
    if -2**63 <= n < 2**63:
        return ("i", n)
    return ("g", n < 0, abs(n).to_bytes(8, "little"))


# ------------------------------------------------------------------------------------------
# mutations of a serialised term for from_term

def same_value_variants(t, rng):
    """the same Erlang value in another representation the decoder can produce (what the wire does)"""
    k = t[0]
    if k == "i":
        n = t[1]
        d = abs(n).to_bytes(max(1, (abs(n).bit_length() + 7) // 8), "little")
        return [("g", n < 0, d)]
    if k == "s":
        return [("b", t[1])]
    if k == "l" and not t[1]:
        return [("n",)]
    return []


def is_utf8(b):
    try:
        b.decode("utf-8")
        return True
    except UnicodeDecodeError:
        return False


def mutate(t, rng, same):
    """replace one node; `same` selects value-preserving replacements"""
    nodes = []

    def walk(x, path):
        nodes.append((path, x))
        k = x[0]
        if k in ("l", "t"):
            for i, y in enumerate(x[1]):
                walk(y, path + [("e", i)])
        elif k == "m":
            for i, (a, b) in enumerate(x[1]):
                walk(a, path + [("k", i)])
                walk(b, path + [("v", i)])
    walk(t, [])

    def put(x, path, new):
        if not path:
            return new
        (kind, i), rest = path[0], path[1:]
        if kind == "e":
            els = list(x[1])
            els[i] = put(els[i], rest, new)
            return (x[0], els)
        kvs = list(x[1])
        a, b = kvs[i]
        kvs[i] = (put(a, rest, new), b) if kind == "k" else (a, put(b, rest, new))
        return ("m", kvs)
    rng.shuffle(nodes)
    for path, x in nodes:
        if same:
            alts = same_value_variants(x, rng)
        else:
            k = x[0]
            alts = []
            if k == "i":
                alts = [("i", x[1] + rng.choice([1, -1, 256, 2**32, -2**32, 2**63 - 1 - x[1] if x[1] >= 0 else -2**63 - x[1]])), ("f", fbits(float(x[1] % 1000))), ("b", b"1"),
                        ("g", False, (2**64 + abs(x[1])).to_bytes(9, "little")), ("g", x[1] < 0, abs(x[1]).to_bytes(9, "little"))]
            elif k == "a":
                alts = [("b", x[1]), ("s", x[1]), A(b"nil"), A(b"undefined"), A(x[1] + b"x"), ("i", 1)]
            elif k == "b":
                alts = [("b", x[1] + b"\xff"), ("l", [("i", c) for c in x[1][:3]]), ("i", 0)]
                if is_utf8(x[1]):     # an atom or a string term holds text: only text can be moved into one
                    alts += [("s", x[1]), A(x[1])]
            elif k == "s":
                alts = [("s", x[1] + b"a"), ("s", b""), A(x[1]), ("i", 1)]
            elif k == "f":
                alts = [("i", 1), ("f", x[1] ^ 1)]
            elif k == "l":
                alts = [("t", x[1]), ("l", x[1][:-1]) if x[1] else ("l", [("i", 1)]), ("l", x[1] + x[1][:1]) if x[1] else A(b"x"), ("n",), ("L", x[1][:1] or [("i", 1)], ("i", 2))]
            elif k == "t":
                alts = [("l", x[1]), ("t", x[1][:-1]), ("t", x[1] + [A(b"extra")]), ("t", x[1][1:]), ("t", [])]
            elif k == "m":
                extra = [(("b", b"zz_unknown"), ("i", 1)), (A(b"zz_unknown"), ("i", 1)), (("i", 5), ("i", 1)), (A(b"__struct__"), A(b"Elixir.Other"))]
                alts = [("m", x[1][:-1]), ("m", x[1] + [rng.choice(extra)]), ("l", [("t", [a, b]) for a, b in x[1]]), ("m", [])]
                if x[1] and x[1][0][0][0] == "b":   # the same field name as an atom key next to the binary key: a duplicate field
                    alts.append(("m", x[1] + [(A(x[1][0][0][1]), x[1][0][1])]))
                    alts.append(("m", [(A(a[1]) if a[0] == "b" else a, b) for a, b in x[1]]))
                if x[1] and x[1][-1][0][0] == "a":
                    alts.append(("m", x[1] + [(("b", x[1][-1][0][1]), x[1][-1][1])]))
                    alts.append(("m", [(("b", a[1]) if a[0] == "a" else a, b) for a, b in x[1]]))
            elif k == "n":
                alts = [("l", []), A(b"nil")]
        alts = [(etf_int(y[1]) if y[0] == "i" and not -2**63 <= y[1] < 2**63 else y) for y in alts]
        if alts:
            return put(t, path, rng.choice(alts))
    return None


# ------------------------------------------------------------------------------------------

def parse_rt(impl):
    d = {}
    for part in impl.split(" ; "):
        k, _, v = part.partition("=")
        d[k] = v
    return d


def rt_oracle(case, impl):
    if impl.startswith(("PANIC", "CRASH", "TIMEOUT", "NOTYPE")):
        return ("violation", "did not return: " + impl[:60])
    _, tyd, vtxt = case.split(" | ", 2)
    ty = rd_ty(P(tyd.split()))
    d = parse_rt(impl)
    if d.get("term") == "SERERR":
        return ("violation", "a supported value is refused by the serialiser")
    want = TYVALS[case]
    if etf.denote(etf.parse_term(d["term"])) != etf.denote(spec_ser(ty, want)):
        return ("violation", "the value is serialised to a term that is not its documented mapping")
    canon = show_val(want)
    if d["mem"] != canon:
        return ("violation", "to_term/from_term does not give the value back: " + d["mem"][:80])
    if d["wire"] == "ENCERR":
        return None      # reported as an error: allowed by the property (size limits of the format)
    if d["wire"] != canon:
        return ("violation", "to_bytes/from_bytes does not give the value back: " + d["wire"][:80])
    return None


DE_EXPECT = {}
TYVALS = {}


def de_oracle(case, impl):
    if impl.startswith(("PANIC", "CRASH", "TIMEOUT", "NOTYPE")):
        return ("violation", "did not return: " + impl[:60])
    want = DE_EXPECT.get(case)
    if want is not None and impl != want:
        return ("violation", "a term denoting the same value in its wire representation reads as %s, expected %s" % (impl[:60], want[:60]))
    return None


def oracle(case, impl):
    return rt_oracle(case, impl) if case.startswith("rt ") else de_oracle(case, impl)


def oracle_for(_d):
    return oracle


def run(ctx):
    rng = ctx.rng
    tys = vlib.run_lines(vlib.HARNESS_BIN, "serde", ["types"])[0].split(" ;; ")
    parsed = [(d, rd_ty(P(d.split()))) for d in tys]
    cases = []
    per = ctx.budget(40, 1200)
    for d, ty in parsed:
        seen = set()
        for v in edge_vals(ty) + [gen_val(rng, ty) for _ in range(per)]:
            line = "rt | %s | %s" % (d, show_val(v))
            if line not in seen:
                seen.add(line)
                TYVALS[line] = v
                cases.append(line)

    def nontrivial(c, impl):
        return c if val_size(TYVALS[c]) > 1 or c.split(" | ")[1] in INTS else None

    def classify(c, impl):
        tyd = c.split(" | ")[1]
        d = parse_rt(impl) if " ; " in impl else {}
        return ["type:" + " ".join(tyd.split()[:2]), "wire:" + ("ENCERR" if d.get("wire") == "ENCERR" else "value")]
    impl, _model = ctx.diff_domain("serde", cases, oracle=oracle, nontrivial=nontrivial, classify=classify)
    # from_term on alternative representations and on damaged terms
    de_cases = []
    tymap = dict(parsed)
    for c, out in zip(cases, impl):
        if " ; " not in out or rng.random() > 0.6:
            continue
        d = parse_rt(out)
        if d.get("term") in (None, "SERERR"):
            continue
        tyd = c.split(" | ")[1]
        t = etf.parse_term(d["term"])
        for same in (True, False, False):
            m = mutate(t, rng, same)
            if m is None:
                continue
            line = "de | %s | %s" % (tyd, etf.show(m))
            if same:
                DE_EXPECT[line] = show_val(TYVALS[c])
            de_cases.append(line)

    def classify_de(c, impl):
        return ["de:" + ("same-value" if c in DE_EXPECT else "damaged"), "result:" + ("ERR" if impl == "ERR" else "value")]
    if de_cases:
        ctx.diff_domain("serde", de_cases, oracle=oracle, nontrivial=lambda c, i: c, classify=classify_de)
