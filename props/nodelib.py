"""Shared pieces of the node-level checks (C17, C18, C19): script generation for the harness domain `node`, a
spec-side reference interpreter of the scripts (what an Erlang-style node must observably do), output parsing."""
import etf, termgen
import C08

SEP = " ;; "
NODE = b"verif@127.0.0.1"
CREATION = 7


def hx(b):
    return etf.hx(b)


def gen_body(rng):
    return C08.no_maps(termgen.gen_term(rng, depth=rng.choice([0, 0, 1]), big_ok=False))


def pid_k(k):
    """the identifier the k-th allocation of the node yields (ids from 1, serial 0, the creation EPMD assigned)"""
    return ("p", NODE, k + 1, 0, CREATION, None)


class Spec:
    """reference semantics of a script: processes with event logs, registry, links, monitors, remote calls.
    Written from the property text and Erlang's process semantics, not from the library."""

    def __init__(self, connected):
        self.alloc = 0
        self.pids = []            # spawn index -> pid (allocation number)
        self.live = {}            # spawn index -> True
        self.events = {}          # spawn index -> list of event tuples
        self.names = {}           # name -> spawn index
        self.links = {}           # spawn index -> set of spawn indexes
        self.mons = {}            # target index -> list of (watcher index, ref no)
        self.refs = []            # ref no -> reference AST
        self.refctr = 0
        self.connected = connected
        self.calls = []           # call no -> dict(state, short, alloc)
        self.sent = []            # call numbers whose request reached the peer, in order
        self.printed = set()

    def new_ref(self):
        ids = [self.refctr, self.refctr + 1, self.refctr + 2]
        self.refctr += 3
        r = ("r", NODE, CREATION, ids, None)
        self.refs.append(r)
        return r

    def index_of_pid(self, pid):
        for i, p in enumerate(self.pids):
            if p[1:5] == pid[1:5]:
                return i
        return None

    def deliver(self, i, ev):
        if i is None or not self.live.get(i):
            return False
        self.events[i].append(ev)
        if ev[0] == "R" and ev[1] == ("a", b"crash"):
            self.live[i] = False
            me = self.pids[i]
            for j in sorted(self.links.get(i, ())):
                if self.live.get(j):
                    self.events[j].append(("X", me, ("a", b"error")))
            for (w, rn) in self.mons.get(i, []):
                if self.live.get(w):
                    self.events[w].append(("M", me, self.refs[rn], ("a", b"error")))
            for n in [n for n, j in self.names.items() if j == i]:
                del self.names[n]
        return True


def show_events(evs):
    items = []
    for e in evs:
        if e[0] == "R":
            items.append(("", "R " + etf.show(e[1])))
        elif e[0] == "X":
            items.append(("", "X %s %s" % (etf.show(e[1]), etf.show(e[2]))))
        else:
            items.append((etf.show(e[1]), "M %s %s %s" % (etf.show(e[1]), etf.show(e[2]), etf.show(e[3]))))
    out, i = [], 0
    while i < len(items):
        j = i
        while j < len(items) and items[i][0] and items[j][0] == items[i][0]:
            j += 1
        if j > i + 1:
            out += sorted(x[1] for x in items[i:j])
        else:
            out.append(items[i][1])
            j = i + 1
        i = j
    return " , ".join(out) if out else "-"


def norm_events(text):
    """events text with terms reduced to their value (the wire changes representations of what the peer sent)"""
    if text == "-":
        return []
    out = []
    for item in text.split(" , "):
        t = etf.Toks(item)
        k = t.next()
        vals = []
        while not t.done():
            vals.append(etf.denote(etf.read_term(t)))
        out.append((k, tuple(vals)))
    return out
