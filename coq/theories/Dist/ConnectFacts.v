(* Facts about the handshake over the socket: connected exactly when the peer's three messages are an accepting
   status, a well-formed challenge and the digest of (cookie, the challenge issued in this very handshake); what the
   client wrote; any other peer behaviour is an error that leaves the state machine short of Connected. *)
From EDP Require Import Base.Bytes Dist.Framing Dist.Handshake Dist.Connect.

Section ConnectFacts.
  Variable md5 : bytes -> bytes.
  Variable c : hcfg.
  Variable gen : N.

  Ltac cbnh H := cbn -[read_framed status_ok challenge_decode ack_decode digest bytes_eqb send_name_old complement challenge_reply N.land] in H.
  Ltac cbng := cbn -[read_framed status_ok challenge_decode ack_decode digest bytes_eqb send_name_old complement challenge_reply N.land].

  (* the three frames a run of connect reads, as far as it gets *)
  Theorem connect_connected_iff cs :
    c_err (connect md5 c gen cs) = None <->
    exists d1 cs1 a1 d2 cs2 a2 d3 cs3 a3 fl ch nm,
      send_name_old c = Some nm /\
      read_framed Handshake cs = (ROk d1, cs1, a1) /\ status_ok d1 = Some true /\
      read_framed Handshake cs1 = (ROk d2, cs2, a2) /\ challenge_decode d2 = Some (fl, ch) /\
      read_framed Handshake cs2 = (ROk d3, cs3, a3) /\ ack_decode d3 = Some (digest md5 gen (h_cookie c)).
  Proof.
    unfold connect, wr, rdm, fail. cbn [hstep hs_init st set_st our their nego].
    split.
    - intros H.
      destruct (send_name_old c) as [nm|] eqn:En; [|cbn in H; discriminate H].
      destruct (read_framed Handshake cs) as [[r1 cs1] a1] eqn:E1. destruct r1 as [d1|[|]]; cbnh H; try discriminate H.
      destruct (status_ok d1) as [[|]|] eqn:Es; cbnh H; try discriminate H.
      destruct (read_framed Handshake cs1) as [[r2 cs2] a2] eqn:E2. destruct r2 as [d2|[|]]; cbnh H; try discriminate H.
      destruct (challenge_decode d2) as [[fl ch]|] eqn:Ec; cbnh H; try discriminate H.
      destruct (read_framed Handshake cs2) as [[r3 cs3] a3] eqn:E3. destruct r3 as [d3|[|]]; cbnh H; try discriminate H.
      destruct (ack_decode d3) as [dg|] eqn:Ea; cbnh H; try discriminate H.
      unfold bytes_eqb in H. destruct (list_eq_dec N.eq_dec dg (digest md5 gen (h_cookie c))) as [->|]; cbnh H; [|discriminate H].
      exists d1, cs1, a1, d2, cs2, a2, d3, cs3, a3, fl, ch, nm. repeat split; assumption.
    - intros (d1 & cs1 & a1 & d2 & cs2 & a2 & d3 & cs3 & a3 & fl & ch & nm & En & E1 & Es & E2 & Ec & E3 & Ea).
      rewrite En, E1. cbng. rewrite Es. cbng. rewrite E2. cbng. rewrite Ec. cbng. rewrite E3. cbng. rewrite Ea. cbng. unfold bytes_eqb.
      destruct (list_eq_dec N.eq_dec (digest md5 gen (h_cookie c)) (digest md5 gen (h_cookie c))); [reflexivity|contradiction].
  Qed.

  (* when it succeeds: the state machine is Connected, the negotiated flags are the intersection, and the bytes written
     are the three client messages with the digest of (cookie, the peer's challenge) *)
  Theorem connect_success cs : c_err (connect md5 c gen cs) = None ->
    st (c_hs (connect md5 c gen cs)) = Connected /\
    exists nm d1 cs1 a1 d2 cs2 a2 fl ch,
      send_name_old c = Some nm /\ read_framed Handshake cs = (ROk d1, cs1, a1) /\
      read_framed Handshake cs1 = (ROk d2, cs2, a2) /\ challenge_decode d2 = Some (fl, ch) /\
      nego (c_hs (connect md5 c gen cs)) = Some (N.land fl (h_flags c)) /\
      c_wrote (connect md5 c gen cs) = nm ++ complement c ++ challenge_reply md5 gen ch (h_cookie c).
  Proof.
    intros H. destruct (proj1 (connect_connected_iff cs) H) as (d1 & cs1 & a1 & d2 & cs2 & a2 & d3 & cs3 & a3 & fl & ch & nm & En & E1 & Es & E2 & Ec & E3 & Ea).
    unfold connect, wr, rdm, fail. cbn [hstep hs_init st set_st our their nego].
    rewrite En, E1. cbng. rewrite Es. cbng. rewrite E2. cbng. rewrite Ec. cbng. rewrite E3. cbng. rewrite Ea. cbng. unfold bytes_eqb.
    destruct (list_eq_dec N.eq_dec (digest md5 gen (h_cookie c)) (digest md5 gen (h_cookie c))); [|contradiction].
    cbng. split; [reflexivity|].
    exists nm, d1, cs1, a1, d2, cs2, a2, fl, ch. repeat split; try assumption. now rewrite <- app_assoc.
  Qed.

  (* every other peer behaviour: an error, and the state machine is not Connected *)
  Theorem connect_failure cs e : c_err (connect md5 c gen cs) = Some e -> st (c_hs (connect md5 c gen cs)) <> Connected.
  Proof.
    unfold connect, wr, rdm, fail. cbn [hstep hs_init st set_st our their nego].
    destruct (send_name_old c) as [nm|]; [|cbn; discriminate].
    destruct (read_framed Handshake cs) as [[r1 cs1] a1]. destruct r1 as [d1|[|]]; cbng; try discriminate.
    destruct (status_ok d1) as [[|]|]; cbng; try discriminate.
    destruct (read_framed Handshake cs1) as [[r2 cs2] a2]. destruct r2 as [d2|[|]]; cbng; try discriminate.
    destruct (challenge_decode d2) as [[fl ch]|]; cbng; try discriminate.
    destruct (read_framed Handshake cs2) as [[r3 cs3] a3]. destruct r3 as [d3|[|]]; cbng; try discriminate.
    destruct (ack_decode d3) as [dg|]; cbng; try discriminate.
    destruct (bytes_eqb dg (digest md5 gen (h_cookie c))); cbng; discriminate.
  Qed.

  (* nothing is written after the step that failed, and what was written is a prefix of the three client messages *)
  Theorem connect_wrote_prefix cs : exists k, c_wrote (connect md5 c gen cs) =
    firstn k (match send_name_old c with Some nm => nm | None => [] end ++ complement c ++
              match read_framed Handshake cs with
              | (ROk d1, cs1, _) => match read_framed Handshake cs1 with
                                    | (ROk d2, _, _) => match challenge_decode d2 with Some (_, ch) => challenge_reply md5 gen ch (h_cookie c) | None => [] end
                                    | _ => [] end
              | _ => [] end).
  Proof.
    unfold connect, wr, rdm, fail. cbn [hstep hs_init st set_st our their nego].
    destruct (send_name_old c) as [nm|]; [|exists 0%nat; reflexivity].
    assert (P1 : forall X : bytes, exists k, nm = firstn k (nm ++ X)) by (intros X; exists (length nm); now rewrite firstn_app, Nat.sub_diag, firstn_all, app_nil_r).
    assert (P2 : forall X : bytes, exists k, nm ++ complement c = firstn k (nm ++ complement c ++ X)).
    { intros X. exists (length (nm ++ complement c)). rewrite app_assoc, firstn_app, Nat.sub_diag, firstn_all. now rewrite app_nil_r. }
    destruct (read_framed Handshake cs) as [[r1 cs1] a1]. destruct r1 as [d1|[|]]; cbng; try apply P1.
    destruct (status_ok d1) as [[|]|]; cbng; try apply P1.
    destruct (read_framed Handshake cs1) as [[r2 cs2] a2]. destruct r2 as [d2|[|]]; cbng; try apply P2.
    destruct (challenge_decode d2) as [[fl ch]|]; cbng; try apply P2.
    assert (P3 : exists k, (nm ++ complement c) ++ challenge_reply md5 gen ch (h_cookie c) = firstn k (nm ++ complement c ++ challenge_reply md5 gen ch (h_cookie c))).
    { exists (length (nm ++ complement c ++ challenge_reply md5 gen ch (h_cookie c))). rewrite firstn_all. now rewrite <- app_assoc. }
    destruct (read_framed Handshake cs2) as [[r3 cs3] a3]. destruct r3 as [d3|[|]]; cbng; try apply P3.
    destruct (ack_decode d3) as [dg|]; cbng; try apply P3.
    destruct (bytes_eqb dg (digest md5 gen (h_cookie c))); cbng; apply P3.
  Qed.
End ConnectFacts.
