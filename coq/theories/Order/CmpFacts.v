(* Facts about the comparison model that do not need induction over terms. *)
From EDP Require Import Base.Bytes Base.F64 Term.Term Gen.Ranks Order.Cmp Order.HashStream.

Lemma thn_opp c d : CompOpp (thn c d) = thn (CompOpp c) (CompOpp d).
Proof. destruct c; reflexivity. Qed.

Lemma cmp_bytes_antisym a : forall b, cmp_bytes a b = CompOpp (cmp_bytes b a).
Proof.
  induction a as [|x a IH]; intros [|y b]; cbn [cmp_bytes]; try reflexivity.
  rewrite thn_opp, <- IH, (N.compare_antisym y x). reflexivity.
Qed.

Lemma cmp_bytes_refl a : cmp_bytes a a = Eq.
Proof. induction a as [|x a IH]; cbn [cmp_bytes]; [reflexivity|]. now rewrite N.compare_refl. Qed.

Lemma cmp_bytes_eq a : forall b, cmp_bytes a b = Eq -> a = b.
Proof.
  induction a as [|x a IH]; intros [|y b]; cbn [cmp_bytes]; try discriminate; [reflexivity|].
  destruct (x ?= y) eqn:E; cbn [thn]; try discriminate. apply N.compare_eq in E. subst. intros H. f_equal. now apply IH.
Qed.

Lemma cmp_len_antisym {A B} (a : list A) (b : list B) : cmp_len a b = CompOpp (cmp_len b a).
Proof. unfold cmp_len. apply N.compare_antisym. Qed.

Lemma cmp_pid_antisym p q : cmp_pid p q = CompOpp (cmp_pid q p).
Proof.
  unfold cmp_pid. rewrite !thn_opp, <- cmp_bytes_antisym, <- !N.compare_antisym. reflexivity.
Qed.

Lemma cmp_big_antisym n1 d1 n2 d2 : cmp_big n1 d1 n2 d2 = CompOpp (cmp_big n2 d2 n1 d1).
Proof.
  unfold cmp_big. destruct n1, n2; try reflexivity.
  - rewrite CompOpp_involutive, thn_opp, <- cmp_len_antisym, <- cmp_bytes_antisym. reflexivity.
  - rewrite thn_opp, <- cmp_len_antisym, <- cmp_bytes_antisym. reflexivity.
Qed.

(* identifiers: comparison, equality and hash never look at the node-local bytes *)
Definition set_ploc (p : pidr) (l : option bytes) : pidr :=
  {| pnode := pnode p; pnum := pnum p; pserial := pserial p; pcreation := pcreation p; ploc := l |}.

Lemma cmp_pid_loc p q l1 l2 : cmp_pid (set_ploc p l1) (set_ploc q l2) = cmp_pid p q.
Proof. reflexivity. Qed.

Lemma eq_bytes_refl a : eq_bytes a a = true.
Proof. unfold eq_bytes. now rewrite cmp_bytes_refl. Qed.

Lemma pid_eqb_loc p l1 l2 : pid_eqb (set_ploc p l1) (set_ploc p l2) = true.
Proof. unfold pid_eqb. cbn [pnode pnum pserial pcreation set_ploc]. now rewrite eq_bytes_refl, !N.eqb_refl. Qed.

Lemma cmp_pid_refl p : cmp_pid p p = Eq.
Proof. unfold cmp_pid. now rewrite cmp_bytes_refl, !N.compare_refl. Qed.

(* different ranks decide the comparison *)
Lemma cmp_rank rank a b : (rank a ?= rank b) <> Eq -> cmp rank a b = (rank a ?= rank b).
Proof. intros H. destruct a; cbn [cmp]; destruct (rank _ ?= rank b); congruence. Qed.
