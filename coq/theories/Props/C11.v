(* C11 — comparison is a lawful total preorder consistent with == and hash; borrowed orders like owned.
   Antisymmetry and reflexivity are proved for ALL terms (containers included, by induction over terms), and the
   borrowed order is proved to be the owned order; equal terms compare as Equal and hash alike, for all terms (the float
   case: equal binary64 values have equal bits or are the two zeros); on the class of terms without floats and improper
   lists (integers in minimal digits) the comparison IS a lexicographic order on a uniform key and therefore
   transitive, Equal being substitutive; the full-strength transitivity statement is refuted on the
   faithful model (recorded finding C11-intransitive) — where it holds is covered by the exhaustive pair/triple law
   check of the correspondence run. *)
From EDP Require Import Base.Bytes Base.F64 Term.Term Gen.Ranks Order.Cmp Order.CmpFacts Order.CmpLaws Order.HashStream Order.EqLaws Order.NumLaws Order.Key.
From EDP Require Gen.HashFields Order.HashFieldsFacts.

(* the two rank tables (term.rs term_type_order, borrowed.rs type_order) are the same table *)
Theorem C11_rank_tables_agree : forall t, rank_owned t = rank_borrowed t.
Proof. destruct t; vm_compute; reflexivity. Qed.

(* antisymmetry for all terms: a <=> b is the reverse of b <=> a, whatever a and b are (lists, tuples, maps, funs
   with their free variables, nested arbitrarily) *)
Theorem C11_antisymmetric : forall a b, cmp_owned a b = CompOpp (cmp_owned b a).
Proof. exact cmp_owned_antisym. Qed.

(* every term compares Equal to itself (NaN included: Ord must be reflexive even where == is not) *)
Theorem C11_reflexive : forall a, cmp_owned a a = Eq.
Proof. exact cmp_owned_refl. Qed.

(* borrowed terms order exactly like their owned counterparts: the two comparison functions are the same function *)
Theorem C11_borrowed_is_owned : forall a b, cmp_borrowed a b = cmp_owned a b.
Proof. intros a b. unfold cmp_borrowed, cmp_owned. apply cmp_rank_ext. intros t. symmetry. apply C11_rank_tables_agree. Qed.

(* antisymmetry across ranks, for all terms *)
Theorem C11_antisym_across_ranks : forall rank a b, (rank a ?= rank b) <> Eq ->
  cmp rank a b = CompOpp (cmp rank b a).
Proof.
  intros rank a b H. rewrite (cmp_rank rank a b H).
  assert (H' : (rank b ?= rank a) <> Eq) by (rewrite N.compare_antisym; destruct (rank a ?= rank b); cbn; congruence).
  rewrite (cmp_rank rank b a H'). apply N.compare_antisym.
Qed.

(* antisymmetry of the leaf comparisons *)
Theorem C11_antisym_leaves : 
  (forall a b, cmp_bytes a b = CompOpp (cmp_bytes b a)) /\
  (forall n1 d1 n2 d2, cmp_big n1 d1 n2 d2 = CompOpp (cmp_big n2 d2 n1 d1)) /\
  (forall p q, cmp_pid p q = CompOpp (cmp_pid q p)) /\
  (forall x y : Z, (x ?= y)%Z = CompOpp (y ?= x)%Z).
Proof. repeat split; [apply cmp_bytes_antisym|apply cmp_big_antisym|apply cmp_pid_antisym|intros; apply Z.compare_antisym]. Qed.

(* mixed integer representations are antisymmetric by construction *)
Theorem C11_antisym_int_big : forall rank x n d, rank (TInt x) = rank (TBig n d) ->
  cmp rank (TInt x) (TBig n d) = CompOpp (cmp rank (TBig n d) (TInt x)).
Proof. intros rank x n d H. cbn [cmp]. rewrite H, N.compare_refl. now rewrite CompOpp_involutive. Qed.

Theorem C11_antisym_int_float : forall rank x f, rank (TInt x) = rank (TFloat f) ->
  cmp rank (TInt x) (TFloat f) = CompOpp (cmp rank (TFloat f) (TInt x)).
Proof. intros rank x f H. cbn [cmp]. rewrite H, N.compare_refl. now rewrite CompOpp_involutive. Qed.

(* == on byte strings is exactly Equal *)
Theorem C11_bytes_eq_iff : forall a b, cmp_bytes a b = Eq <-> a = b.
Proof. intros a b; split; [apply cmp_bytes_eq|intros ->; apply cmp_bytes_refl]. Qed.

(* full-strength transitivity is FALSE of the faithful model: the recorded finding, replayed on the implementation
   by the check as `ord: cmp i 9007199254740993 | f 4340000000000000 | i 9007199254740992` *)
Theorem C11_refuted_transitivity : exists a b c,
  wf a = true /\ wf b = true /\ wf c = true /\
  cmp_owned a b <> Gt /\ cmp_owned b c <> Gt /\ cmp_owned a c = Gt.
Proof.
  exists (TInt 9007199254740993), (TFloat 4845873199050653696), (TInt 9007199254740992).
  repeat split; try (vm_compute; reflexivity); vm_compute; discriminate.
Qed.

(* ... and without any float, once a big integer carries high-order zero digits (what the decoder returns for a
   non-minimal SMALL_BIG_EXT): <8 in one digit> <= <7 in two digits> (fewer digits) and <7 in two digits> <= 7 (by
   value), but <8 in one digit> > 7 (by value) — the recorded finding C11-padded-big *)
Theorem C11_refuted_transitivity_padded_big : exists a b c,
  wf a = true /\ wf b = true /\ wf c = true /\
  cmp_owned a b <> Gt /\ cmp_owned b c <> Gt /\ cmp_owned a c = Gt.
Proof.
  exists (TBig false [8]), (TBig false [7; 0]), (TInt 7).
  repeat split; try (vm_compute; reflexivity); vm_compute; discriminate.
Qed.

(* after the fix commit dd140f3: +0.0 and -0.0 are equal, compare Equal and hash alike *)
Theorem C11_zero_consistent :
  teqb (TFloat 0) (TFloat 9223372036854775808) = true /\ cmp_owned (TFloat 0) (TFloat 9223372036854775808) = Eq
  /\ hash_eqb (TFloat 0) (TFloat 9223372036854775808) = true.
Proof. repeat split; vm_compute; reflexivity. Qed.

(* "terms that are structurally equal compare as equal" — for ALL terms, nested arbitrarily *)
Theorem C11_equal_terms_compare_equal : forall a b, teqb a b = true -> cmp_owned a b = Eq.
Proof. exact eq_implies_cmp_eq. Qed.

(* "terms that are equal have equal hashes": they feed the hasher the same sequence of items — for all well-formed terms;
   the float case rests on f64_eqb_bits (two binary64 values that are == have the same bits or are +0.0 and -0.0, which
   the hash normalises) *)
Theorem C11_equal_terms_hash_alike : forall a b, wf a = true -> wf b = true -> teqb a b = true -> hstream a = hstream b.
Proof. exact eq_implies_same_hash. Qed.

(* ... and the items are the ones the code feeds: the translator reads from types.rs / term.rs which fields ==, the hash
   and the order of pids, ports and references look at (the same ones, never the preserved LOCAL_EXT bytes), what the fun
   arm hashes, and that the float arm folds the two zeros together; these are the model's *)
Theorem C11_identifier_fields_lawful : forallb HashFieldsFacts.row_lawful HashFields.id_fields = true.
Proof. exact HashFieldsFacts.identifier_fields_lawful. Qed.

Theorem C11_code_hashes_what_the_model_hashes :
  HashFields.id_fields = HashFieldsFacts.model_id_fields /\
  HashFields.fun_hash_fields = HashFieldsFacts.model_fun_hash_fields /\ HashFields.float_hash_folds_zeros = true.
Proof. exact HashFieldsFacts.code_hashes_what_the_model_hashes. Qed.

Theorem C11_equal_floats_same_bits_or_zeros : forall a b, a < 18446744073709551616 -> b < 18446744073709551616 ->
  f64_eqb a b = true -> a = b \/ ((a = 0 \/ a = 9223372036854775808) /\ (b = 0 \/ b = 9223372036854775808)).
Proof. exact f64_eqb_bits. Qed.

(* the premises are met by nested terms with both zeros, a node-local pid and a plain one, inside a map inside a tuple *)
Example C11_equal_example :
  let p1 := TPid {| pnode := [110]; pnum := 1; pserial := 2; pcreation := 3; ploc := None |} in
  let p2 := TPid {| pnode := [110]; pnum := 1; pserial := 2; pcreation := 3; ploc := Some [1; 2; 3] |} in
  let a := TTuple [TMap [(TFloat 0, p1)]; TList [TInt 5]] in
  let b := TTuple [TMap [(TFloat 9223372036854775808, p2)]; TList [TInt 5]] in
  teqb a b = true /\ wf a = true /\ a <> b.
Proof. cbv zeta. repeat split; try (vm_compute; reflexivity). discriminate. Qed.

(* ---- where the order is lawful ----
   On terms without floats and without improper lists, with integers in minimal digits (i64, or a big integer with
   minimal byte digits), comparison is the lexicographic order kcmp on the key of the term — numbers by value, a number
   before a sequence, sequences element-wise with a proper prefix first — for terms nested arbitrarily *)
Theorem C11_order_is_lexicographic_on_keys : forall a b, tcl a -> tcl b -> cmp_owned a b = kcmp (tkey a) (tkey b).
Proof. exact cmp_is_kcmp. Qed.

(* kcmp is a total order on all keys: Equal is substitutive and Less composes (with antisymmetry: every transitivity law) *)
Theorem C11_key_order_lawful : forall a b c,
  (kcmp a b = Eq -> kcmp b c = kcmp a c) /\ (kcmp a b = Lt -> kcmp b c <> Gt -> kcmp a c = Lt).
Proof. exact kcmp_tr. Qed.

(* hence transitivity of the term order on that class: a <= b, b <= c  =>  a <= c; Equal terms are interchangeable *)
Theorem C11_transitive_off_the_recorded_classes : forall a b c, tcl a -> tcl b -> tcl c ->
  cmp_owned a b <> Gt -> cmp_owned b c <> Gt -> cmp_owned a c <> Gt.
Proof. exact cmp_transitive_on_class. Qed.

Theorem C11_equal_is_substitutive : forall a b c, tcl a -> tcl b -> tcl c -> cmp_owned a b = Eq -> cmp_owned b c = cmp_owned a c.
Proof. exact cmp_equal_substitutive. Qed.

(* the class is inhabited by nested terms of every remaining kind, big integers on both sides of the i64 range included;
   the witness of the refuted law above needs a float *)
Example C11_class_example :
  let p := {| pnode := [110]; pnum := 1; pserial := 2; pcreation := 3; ploc := None |} in
  tcl (TTuple [TMap [(TAtom [97], TBig false [0; 0; 0; 0; 0; 0; 0; 0; 1]); (TInt (-5), TList [TBin [1]; TBitBin [128] 1; TStr [97]])];
               TIntFun 1 (repeat 0 16) 2 1 [109] 3 4 p [TNil; TPid p]; TRef [110] 1 [1; 2] None; TExtFun [109] [102] 2; TPort [110] 1 2 None]).
Proof.
  cbn [tcl int_term]. repeat split; try lia; try exact I; try discriminate.
  all: try (repeat constructor; lia). all: try (unfold minimal; cbn; discriminate).
Qed.

Check C11_antisym_across_ranks.
