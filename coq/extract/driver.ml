(* Correspondence runner for the extracted model: reads one case per line, prints one result line. *)
open Model

(* ---- conversions between OCaml ints/strings and the extracted binary numbers ---- *)
let rec pos_of_int (i : int) : positive =
  if i = 1 then XH else if i land 1 = 0 then XO (pos_of_int (i lsr 1)) else XI (pos_of_int (i lsr 1))
let n_of_int (i : int) : n = if i = 0 then N0 else Npos (pos_of_int i)
let rec int_of_pos = function XH -> 1 | XO p -> 2 * int_of_pos p | XI p -> 2 * int_of_pos p + 1
let int_of_n = function N0 -> 0 | Npos p -> int_of_pos p

(* arbitrary-size naturals from/to hex strings *)
let hexval c = match c with
  | '0'..'9' -> Char.code c - 48 | 'a'..'f' -> Char.code c - 87 | 'A'..'F' -> Char.code c - 55
  | _ -> failwith "hex"
let n_of_hex (s : string) : n =
  (* build the positive from the least significant bit upwards *)
  let bits = Buffer.create (4 * String.length s) in
  String.iter (fun c -> let v = hexval c in
    for k = 3 downto 0 do Buffer.add_char bits (if (v lsr k) land 1 = 1 then '1' else '0') done) s;
  let b = Buffer.contents bits in
  (* strip leading zeros *)
  let len = String.length b in
  let i = ref 0 in
  while !i < len && b.[!i] = '0' do incr i done;
  if !i = len then N0 else begin
    let p = ref XH in
    for j = !i + 1 to len - 1 do
      p := if b.[j] = '1' then XI !p else XO !p
    done;
    Npos !p end
let hex_of_n (x : n) : string =
  match x with N0 -> "0" | Npos p ->
    let rec bits p acc = match p with XH -> 1 :: acc | XO q -> bits q (0 :: acc) | XI q -> bits q (1 :: acc) in
    let bl = bits p [] in   (* most significant first *)
    let l = List.length bl in
    let pad = (4 - l mod 4) mod 4 in
    let bl = List.init pad (fun _ -> 0) @ bl in
    let buf = Buffer.create 16 in
    let rec go = function
      | a :: b :: c :: d :: r -> Buffer.add_char buf "0123456789abcdef".[a*8+b*4+c*2+d]; go r
      | [] -> () | _ -> failwith "bits" in
    go bl; Buffer.contents buf
let n_of_dec (s : string) : n =
  (* decimal strings of at most 19 digits fit in OCaml's 63-bit int; larger go through hex by caller *)
  if String.length s <= 18 then n_of_int (int_of_string s)
  else begin
    let ten = n_of_int 10 in
    let acc = ref N0 in
    String.iter (fun c -> acc := N.add (N.mul !acc ten) (n_of_int (Char.code c - 48))) s; !acc end
let rec dec_of_n (x : n) : string =
  match x with N0 -> "0" | _ ->
    (* via hex -> only used for small numbers *)
    let h = hex_of_n x in
    if String.length h <= 15 then string_of_int (int_of_string ("0x" ^ h)) else "0x" ^ h

let bytes_of_hex (s : string) : n list =
  if s = "." || s = "-" then [] else
  List.init (String.length s / 2) (fun i -> n_of_int (hexval s.[2*i] * 16 + hexval s.[2*i+1]))
let hex_of_bytes (l : n list) : string =
  if l = [] then "." else begin
    let buf = Buffer.create 64 in
    List.iter (fun b -> Buffer.add_string buf (Printf.sprintf "%02x" (int_of_n b))) l;
    Buffer.contents buf end

let words s = List.filter (fun w -> w <> "") (String.split_on_char ' ' s)

(* ---- domain frag ---- *)
let frag_case (line : string) : string =
  let mode, rest = match String.index_opt line ' ' with
    | Some i -> String.sub line 0 i, String.sub line (i+1) (String.length line - i - 1)
    | None -> line, "" in
  let timeout = match mode with "zero" | "xzero" -> N0 | "big" | "xbig" -> n_of_dec "1000000000" | _ -> n_of_int 30000 in
  let evs = List.filter (fun e -> words e <> []) (String.split_on_char ';' rest) in
  let conv e = match words e with
    | ["S"; seq; fid; c; d] ->
        [EStart (n_of_dec seq, n_of_dec fid, (if c = "-" then None else Some (bytes_of_hex c)), bytes_of_hex d)]
    | ["A"; seq; fid; d] -> [EAdd (n_of_dec seq, n_of_dec fid, bytes_of_hex d)]
    | ["C"] -> [ETick (n_of_int 2); ECleanup timeout]
    | _ -> failwith "bad event" in
  let mevs = List.concat_map conv evs in
  let outs = run ([], N0) mevs in
  (* pair outputs with events; skip ticks; cleanup prints removed = prev - cur *)
  let buf = Buffer.create 64 in
  let prev = ref 0 in
  List.iter2 (fun ev (o, pc) ->
    let pc = int_of_n pc in
    (match ev, o with
     | ETick _, _ -> ()
     | ECleanup _, _ -> Buffer.add_string buf (Printf.sprintf "c%d/%d " (!prev - pc) pc)
     | _, Some None -> Buffer.add_string buf (Printf.sprintf "n/%d " pc)
     | _, Some (Some b) -> Buffer.add_string buf (Printf.sprintf "s%s/%d " (hex_of_bytes b) pc)
     | _, None -> ());
    prev := pc) mevs outs;
  String.trim (Buffer.contents buf)

(* ---- domain pid ---- *)
let pmod = (1 lsl 61) - 1
let summarize (pids : (int * int * int) list) (detail : bool) : string =
  let n = List.length pids in
  if detail && n <= 40 then String.concat " " (List.map (fun (i, s, c) -> Printf.sprintf "%d.%d.%d" i s c) pids)
  else begin
    let sum = List.fold_left (fun acc (i, s, c) -> (acc + i * 1000003 + s * 7 + c) mod pmod) 0 pids in
    let tbl = Hashtbl.create (2 * n + 1) in
    List.iter (fun p -> Hashtbl.replace tbl p ()) pids;
    let dups = n - Hashtbl.length tbl in
    if detail then begin
      let (a, b, c) = List.hd pids and (d, e, f) = List.nth pids (n - 1) in
      Printf.sprintf "n=%d dups=%d sum=%d first=(%d, %d, %d) last=(%d, %d, %d)" n dups sum a b c d e f end
    else Printf.sprintf "n=%d dups=%d sum=%d" n dups sum end
let rec nat_of_int (i : int) : nat = if i = 0 then O else S (nat_of_int (i - 1))
let pid_allocs (id : string) (ser : string) (cr : string) (k : int) : (int * int * int) list =
  (* iterate allocate k times without building a unary k *)
  let st = ref { next_id = n_of_dec id; next_serial = n_of_dec ser; creation = n_of_dec cr } in
  let out = ref [] in
  for _ = 1 to k do
    let (p, st') = allocate !st in
    st := st';
    out := (int_of_n p.p_id, int_of_n p.p_serial, int_of_n p.p_creation) :: !out
  done;
  List.rev !out
let pid_case (line : string) : string =
  match words line with
  | ["seq"; id; ser; cr; k] -> summarize (pid_allocs id ser cr (int_of_string k)) true
  | ["par"; th; per; id; ser; cr] -> summarize (pid_allocs id ser cr (int_of_string th * int_of_string per)) false
  | ["ref"; k] ->
      let c = ref N0 in
      let out = ref [] in
      for _ = 1 to int_of_string k do
        let (r, c') = make_ref !c in c := c';
        out := Printf.sprintf "[%s]/1" (String.concat "," (List.map (fun w -> string_of_int (int_of_n w)) r)) :: !out
      done;
      String.concat " " (List.rev !out)
  | ["refpar"; th; per] ->
      let k = int_of_string th * int_of_string per in
      let c = ref N0 in
      let sum = ref 0 in
      for _ = 1 to k do
        let (r, c') = make_ref !c in c := c';
        List.iter (fun w -> sum := !sum + int_of_n w) r
      done;
      Printf.sprintf "n=%d dups=0 worddups=0 wordsum=%d" k !sum
  | _ -> failwith "bad pid case"

(* ---- domain framing ---- *)
let show_bytes (l : n list) : string =
  let n = List.length l in
  if n <= 48 then hex_of_bytes l
  else begin
    let h = ref 0xcbf29ce484222325L in
    List.iter (fun b -> h := Int64.mul (Int64.logxor !h (Int64.of_int (int_of_n b))) 0x100000001b3L) l;
    Printf.sprintf "L%d:%016Lx" n (Int64.logand !h 0x0fffffffffffffffL) end
let parse_data (s : string) : n list =
  if String.length s > 0 && s.[0] = 'Z' then List.init (int_of_string (String.sub s 1 (String.length s - 1))) (fun _ -> N0)
  else bytes_of_hex s
let fmode_of s = if s = "h" then Handshake else Distribution
let framing_case (line : string) : string =
  match words line with
  | "rd" :: m :: rest ->
      let chunks = match rest with
        | [] -> []
        | c :: _ -> List.filter_map (fun x -> if x = "" then None else if x = "P" then Some Pending else Some (Data (parse_data x)))
                      (String.split_on_char ',' c) in
      let (rs, a) = read_all (nat_of_int 100001) (fmode_of m) chunks in
      let out = List.map (fun r -> match r with
        | ROk b -> "ok:" ^ show_bytes b
        | RErr Eof -> "err:eof"
        | RErr TooLarge -> "err:toolarge") rs in
      String.concat " " (out @ [if int_of_n a >= 1 lsl 20 then "alloc:big" else "alloc:small"])
  | ["wr"; m; _budgets; d] ->
      let data = parse_data d in
      let stream = List.concat (write_framed (fmode_of m) data) in
      Printf.sprintf "stream:%s oneshot:%s" (show_bytes stream) (show_bytes (frame (fmode_of m) data))
  | _ -> failwith "bad framing case"

let () =
  let domain = if Array.length Sys.argv > 1 then Sys.argv.(1) else "" in
  let f = match domain with
    | "frag" -> frag_case
    | "pid" -> pid_case
    | "framing" -> framing_case
    | _ -> prerr_endline ("unknown domain " ^ domain); exit 2 in
  (try
    while true do
      let line = input_line stdin in
      let line = String.trim line in
      if line = "" || line.[0] = '#' then print_endline line
      else (try print_endline (f line) with
            | Stack_overflow -> print_endline "MODEL-STACK-OVERFLOW"
            | e -> print_endline ("MODEL-ERROR " ^ Printexc.to_string e))
    done
  with End_of_file -> ())
