(* C02 — decoding untrusted bytes always returns.
   The model decoder is a total function (Coq accepts it), so "returns a term or an error value" is by construction
   once fuel exhaustion — the one artificial outcome — is shown unreachable.  Process-level effects (stack depth,
   allocator requests) are measured on the implementation by the harness; see DESIGN.md. *)
From EDP Require Import Base.Bytes Term.Term Gen.Tags Gen.DecoderArms Codec.Decode Codec.DecodeFacts Gen.Prealloc Codec.PreallocFacts.

(* for every byte string, every oracle and either arm table, decode yields a term, a decode error or trailing data:
   never the model's out-of-fuel value *)
Theorem C02_decode_total : forall cfg data, decode cfg data <> DErr KFuel.
Proof. exact decode_nofuel. Qed.

(* the parser behind decode_with_trailing / decode_raw_term / decode_with_cache *)
Theorem C02_parse_total : forall cfg f bs, (length bs < f)%nat -> parse cfg f bs <> PErr KFuel.
Proof. exact parse_nofuel. Qed.

(* every successful parse consumes at least the tag byte: nested parsers make progress, so sequence loops whose
   count comes from the wire are bounded by the input length *)
Theorem C02_progress : forall cfg f bs t r, parse cfg f bs = POk t r -> (length r < length bs)%nat.
Proof. intros cfg f bs t r. exact (parse_consumes cfg f bs t r). Qed.

Theorem C02_sequence_bounded : forall cfg f k n bs, (length bs < k)%nat ->
  (forall x, (length x <= length bs)%nat -> parse cfg f x <> PErr KFuel) ->
  seq_with (parse cfg f) k n bs <> SErr KFuel.
Proof. intros cfg f k n bs. exact (seq_with_nofuel (parse cfg f) k (parse_consumes cfg f) n bs). Qed.

(* more fuel never changes an answer *)
Theorem C02_fuel_irrelevant : forall cfg f g bs t r, (f <= g)%nat -> parse cfg f bs = POk t r -> parse cfg g bs = POk t r.
Proof. intros cfg f g bs t r H. exact (parse_mono cfg f g H bs t r). Qed.

(* the allocations made before a sequence is read: every `with_capacity` site of the decoder, as the translator found it
   in the source, is a constant or the announced count capped by the bytes that are left (Gen/Prealloc.v) *)
Theorem C02_preallocations_capped : forallb (fun s => snd s) prealloc_sites = true.
Proof. exact preallocations_capped. Qed.

Theorem C02_preallocations_listed : (8 <= length prealloc_sites)%nat.
Proof. exact preallocations_listed. Qed.

Check C02_decode_total : forall cfg data, decode cfg data <> DErr KFuel.
