(* Equality (PartialEq for OwnedTerm, model teqb) against the order and the hash, for ALL terms: terms that are equal
   compare as Equal, and feed the hasher the same sequence of items. *)
From EDP Require Import Base.Bytes Base.F64 Term.Term Gen.Ranks Order.Cmp Order.CmpFacts Order.CmpLaws Order.HashStream.

(* the local list walks of teqb, named *)
Definition alleq := fix go (l1 l2 : list term) {struct l1} : bool :=
  match l1, l2 with
  | [], [] => true
  | x :: r1, y :: r2 => teqb x y && go r1 r2
  | _, _ => false
  end.
Definition alleqm := fix gom (m1 m2 : list (term * term)) {struct m1} : bool :=
  match m1, m2 with
  | [], [] => true
  | (k1, v1) :: r1, (k2, v2) :: r2 => teqb k1 k2 && teqb v1 v2 && gom r1 r2
  | _, _ => false
  end.

Lemma eq_bytes_cmp a b : eq_bytes a b = true -> cmp_bytes a b = Eq.
Proof. unfold eq_bytes. now destruct (cmp_bytes a b). Qed.
Lemma eq_bytes_eq a b : eq_bytes a b = true -> a = b.
Proof. intros H. apply cmp_bytes_eq. now apply eq_bytes_cmp. Qed.

Lemma neqb_cmp a b : (a =? b) = true -> (a ?= b) = Eq.
Proof. intros H. apply N.eqb_eq in H. subst. apply N.compare_refl. Qed.

Lemma pid_eqb_cmp p q : pid_eqb p q = true -> cmp_pid p q = Eq.
Proof.
  unfold pid_eqb, cmp_pid. intros H. apply andb_prop in H as [H H4]. apply andb_prop in H as [H H3]. apply andb_prop in H as [H1 H2].
  now rewrite (eq_bytes_cmp _ _ H1), (neqb_cmp _ _ H2), (neqb_cmp _ _ H3), (neqb_cmp _ _ H4).
Qed.

Lemma f64_eqb_cmp a b : f64_eqb a b = true -> cmp_float a b = Eq.
Proof.
  unfold f64_eqb, cmp_float. destruct (is_nan (f64_of_bits a)), (is_nan (f64_of_bits b)); cbn [orb andb]; try discriminate.
  now destruct (cmp_f64 (f64_of_bits a) (f64_of_bits b)).
Qed.

Lemma alleq_len l1 : forall l2, alleq l1 l2 = true -> len l1 = len l2.
Proof.
  induction l1 as [|x l1 IH]; intros [|y l2] H; cbn [alleq] in H; try discriminate; [reflexivity|].
  apply andb_prop in H as [_ H]. unfold len in *. cbn [length]. specialize (IH l2 H). lia.
Qed.
Lemma alleqm_len m1 : forall m2, alleqm m1 m2 = true -> len m1 = len m2.
Proof.
  induction m1 as [|[k1 v1] m1 IH]; intros [|[k2 v2] m2] H; cbn [alleqm] in H; try discriminate; [reflexivity|].
  apply andb_prop in H as [_ H]. unfold len in *. cbn [length]. specialize (IH m2 H). lia.
Qed.

Definition EC (a : term) : Prop := forall b, teqb a b = true -> cmp rank_owned a b = Eq.

Lemma alleq_zipc l1 : Forall EC l1 -> forall l2, alleq l1 l2 = true -> zipc rank_owned l1 l2 = Eq.
Proof.
  induction 1 as [|x l1 Hx _ IH]; intros [|y l2] H; cbn [alleq] in H; try discriminate; [reflexivity|].
  apply andb_prop in H as [H1 H2]. cbn [zipc]. rewrite (Hx y H1). now apply IH.
Qed.
Lemma alleqm_zipk m1 : Forall (fun kv => EC (fst kv) /\ EC (snd kv)) m1 -> forall m2, alleqm m1 m2 = true -> zipk rank_owned m1 m2 = Eq.
Proof.
  induction 1 as [|[k1 v1] m1 [Hk _] _ IH]; intros [|[k2 v2] m2] H; cbn [alleqm] in H; try discriminate; [reflexivity|].
  apply andb_prop in H as [H H3]. apply andb_prop in H as [H1 H2]. cbn [zipk fst]. cbn [fst] in Hk. rewrite (Hk k2 H1). now apply IH.
Qed.
Lemma alleqm_zipv m1 : Forall (fun kv => EC (fst kv) /\ EC (snd kv)) m1 -> forall m2, alleqm m1 m2 = true -> zipv rank_owned m1 m2 = Eq.
Proof.
  induction 1 as [|[k1 v1] m1 [_ Hv] _ IH]; intros [|[k2 v2] m2] H; cbn [alleqm] in H; try discriminate; [reflexivity|].
  apply andb_prop in H as [H H3]. apply andb_prop in H as [H1 H2]. cbn [zipv snd]. cbn [snd] in Hv. rewrite (Hv v2 H2). now apply IH.
Qed.

Ltac splitb H := repeat match type of H with (_ && _) = true => let H' := fresh "E" in apply andb_prop in H as [H H'] end.

(* equal terms compare as Equal *)
Theorem eq_implies_cmp_eq : forall a b, teqb a b = true -> cmp_owned a b = Eq.
Proof.
  unfold cmp_owned. intros a. change (EC a). induction a using term_ind'; intros t2 Heq; destruct t2; cbn [teqb] in Heq; try discriminate Heq.
  all: rewrite (cmp_unfold rank_owned); cbn [rank_owned]; rewrite N.compare_refl.
  all: try (cbn [cmp rank_owned]; rewrite N.compare_refl).
  - now apply eq_bytes_cmp.
  - apply Z.eqb_eq in Heq. subst. apply Z.compare_refl.
  - now apply f64_eqb_cmp.
  - now apply pid_eqb_cmp.
  - splitb Heq. now rewrite (eq_bytes_cmp _ _ Heq), (neqb_cmp _ _ E0), (neqb_cmp _ _ E).
  - splitb Heq. now rewrite (eq_bytes_cmp _ _ Heq), (neqb_cmp _ _ E0), (eq_bytes_cmp _ _ E).
  - now apply eq_bytes_cmp.
  - splitb Heq. now rewrite (eq_bytes_cmp _ _ Heq), (neqb_cmp _ _ E).
  - now apply eq_bytes_cmp.
  - change (alleq l l0 = true) in Heq. unfold cmp_len. now rewrite (alleq_zipc l H l0 Heq), (alleq_len l l0 Heq), N.compare_refl.
  - apply andb_prop in Heq as [H1 H2]. change (alleq l l0 = true) in H1. unfold cmp_len.
    now rewrite (alleq_zipc l H l0 H1), (alleq_len l l0 H1), N.compare_refl, (IHa t2 H2).
  - change (alleqm kvs kvs0 = true) in Heq. unfold cmp_len.
    now rewrite (alleqm_len kvs kvs0 Heq), N.compare_refl, (alleqm_zipk kvs H kvs0 Heq), (alleqm_zipv kvs H kvs0 Heq).
  - change (alleq l l0 = true) in Heq. unfold cmp_len. now rewrite (alleq_len l l0 Heq), N.compare_refl, (alleq_zipc l H l0 Heq).
  - apply andb_prop in Heq as [H1 H2]. apply Bool.eqb_prop in H1. subst. apply eq_bytes_eq in H2. subst. apply cmp_big_refl.
  - splitb Heq. now rewrite (eq_bytes_cmp _ _ Heq), (eq_bytes_cmp _ _ E0), (neqb_cmp _ _ E).
  - apply andb_prop in Heq as [Heq Efr]. apply andb_prop in Heq as [Heq Ep]. apply andb_prop in Heq as [Heq Eou].
    apply andb_prop in Heq as [Heq Eoi]. apply andb_prop in Heq as [Heq Em]. apply andb_prop in Heq as [Heq Enf].
    apply andb_prop in Heq as [Heq Ei]. apply andb_prop in Heq as [Ea Eu].
    change (alleq fr free = true) in Efr. unfold cmp_len.
    rewrite (eq_bytes_cmp _ _ Em), (neqb_cmp _ _ Eoi), (neqb_cmp _ _ Eou), (neqb_cmp _ _ Ei), (eq_bytes_cmp _ _ Eu), (pid_eqb_cmp _ _ Ep).
    now rewrite (alleq_zipc fr H free Efr), (alleq_len fr free Efr), N.compare_refl.
  - reflexivity.
Qed.

(* ---------- binary64: equal values have equal bits, or are the two zeros ---------- *)

Definition two63 : N := 9223372036854775808.
Definition two64' : N := 18446744073709551616.

Lemma bits_of_fields b : b < two64' ->
  b = (if N.testbit b 63 then two63 else 0) + ((b / two52) mod 2048) * two52 + b mod two52.
Proof.
  intros Hb. rewrite N.testbit_eqb. change (2 ^ 63) with (two52 * 2048). rewrite <- N.div_div by (unfold two52; lia).
  set (q := b / two52).
  assert (Hq : q < 4096).
  { subst q. apply N.div_lt_upper_bound; [unfold two52; lia|]. unfold two64', two52 in *. lia. }
  pose proof (N.div_mod b two52 ltac:(unfold two52; lia)) as D1. fold q in D1.
  pose proof (N.div_mod q 2048 ltac:(lia)) as D2.
  pose proof (N.mod_upper_bound q 2048 ltac:(lia)) as U2.
  assert (Hh : q / 2048 < 2) by (apply N.div_lt_upper_bound; lia).
  destruct (N.eq_dec (q / 2048) 0) as [E0|E0].
  - rewrite E0. change ((0 mod 2) =? 1) with false. cbv iota. rewrite E0 in D2. unfold two52 in *. lia.
  - assert (E1 : q / 2048 = 1) by lia. rewrite E1. change ((1 mod 2) =? 1) with true. cbv iota. rewrite E1 in D2. unfold two63, two52 in *. lia.
Qed.

Lemma same_fields a b : a < two64' -> b < two64' ->
  N.testbit a 63 = N.testbit b 63 -> (a / two52) mod 2048 = (b / two52) mod 2048 -> a mod two52 = b mod two52 -> a = b.
Proof. intros Ha Hb H1 H2 H3. rewrite (bits_of_fields a Ha), (bits_of_fields b Hb), H1, H2, H3. reflexivity. Qed.

(* magnitudes of finite non-zero binary64 values: either subnormal (m < 2^52, e = -1074) or normal (2^52 <= m < 2^53, e >= -1074) *)
Definition canon (m : N) (e : Z) : Prop := (0 < m) /\ ((m < two52 /\ e = (-1074)%Z) \/ (two52 <= m < two53 /\ (-1074 <= e)%Z)).

Lemma pow2_pos k : 0 < pow2 k.
Proof. unfold pow2. destruct (k <? 0)%Z; [lia|]. apply N.neq_0_lt_0. apply N.pow_nonzero. lia. Qed.

Lemma pow2_ge2 k : (1 <= k)%Z -> 2 <= pow2 k.
Proof.
  intros Hk. unfold pow2. replace (k <? 0)%Z with false by (symmetry; apply Z.ltb_ge; lia).
  replace (Z.to_N k) with (N.succ (Z.to_N (k - 1))) by lia. rewrite N.pow_succ_r'.
  assert (0 < 2 ^ Z.to_N (k - 1)) by (apply N.neq_0_lt_0; apply N.pow_nonzero; lia). lia.
Qed.

Lemma cmp_mag_eq m1 e1 m2 e2 : canon m1 e1 -> canon m2 e2 -> cmp_mag m1 e1 m2 e2 = Eq -> m1 = m2 /\ e1 = e2.
Proof.
  intros [P1 C1] [P2 C2] H. unfold cmp_mag in H. apply N.compare_eq in H.
  assert (Hp0 : pow2 0 = 1) by reflexivity.
  destruct (Z.lt_trichotomy e1 e2) as [L|[E|G]].
  - exfalso. rewrite Z.min_l in H by lia. rewrite Z.sub_diag, Hp0, N.mul_1_r in H.
    pose proof (pow2_ge2 (e2 - e1) ltac:(lia)) as Hk.
    assert (Hn2 : two52 <= m2) by (destruct C2 as [[? ?]|[[? ?] ?]]; [lia|assumption]).
    assert (m1 < two53) by (destruct C1 as [[? ?]|[[? ?] ?]]; unfold two52, two53 in *; lia).
    unfold two52, two53 in *. nia.
  - subst e2. rewrite Z.min_id, Z.sub_diag, Hp0, !N.mul_1_r in H. split; [exact H|reflexivity].
  - exfalso. rewrite Z.min_r in H by lia. rewrite Z.sub_diag, Hp0, N.mul_1_r in H.
    pose proof (pow2_ge2 (e1 - e2) ltac:(lia)) as Hk.
    assert (Hn1 : two52 <= m1) by (destruct C1 as [[? ?]|[[? ?] ?]]; [lia|assumption]).
    assert (m2 < two53) by (destruct C2 as [[? ?]|[[? ?] ?]]; unfold two52, two53 in *; lia).
    unfold two52, two53 in *. nia.
Qed.

(* equal (==) binary64 values have the same bits, or are the two zeros *)
Theorem f64_eqb_bits a b : a < two64' -> b < two64' -> f64_eqb a b = true ->
  a = b \/ ((a = 0 \/ a = two63) /\ (b = 0 \/ b = two63)).
Proof.
  intros Ha Hb H. unfold f64_eqb in H.
  pose proof (N.mod_upper_bound a two52 ltac:(unfold two52; lia)) as Fa.
  pose proof (N.mod_upper_bound b two52 ltac:(unfold two52; lia)) as Fb.
  pose proof (N.mod_upper_bound (a / two52) 2048 ltac:(lia)) as Xa.
  pose proof (N.mod_upper_bound (b / two52) 2048 ltac:(lia)) as Xb.
  pose proof (bits_of_fields a Ha) as Da. pose proof (bits_of_fields b Hb) as Db.
  unfold f64_of_bits in H.
  set (sa := N.testbit a 63) in *. set (xa := (a / two52) mod 2048) in *. set (fa := a mod two52) in *.
  set (sb := N.testbit b 63) in *. set (xb := (b / two52) mod 2048) in *. set (fb := b mod two52) in *.
  destruct (xa =? 2047) eqn:Ea; [apply N.eqb_eq in Ea|apply N.eqb_neq in Ea].
  - destruct (fa =? 0) eqn:Eaf; cbn [is_nan orb] in H; [|discriminate]. apply N.eqb_eq in Eaf.
    destruct (xb =? 2047) eqn:Eb; [apply N.eqb_eq in Eb|].
    + destruct (fb =? 0) eqn:Ebf; cbn [is_nan orb cmp_f64] in H; [|discriminate]. apply N.eqb_eq in Ebf.
      left. rewrite Da, Db, Ea, Eb, Eaf, Ebf. destruct sa, sb; cbn [Bool.eqb] in H; try reflexivity; discriminate.
    + destruct (xb =? 0); cbn [is_nan orb cmp_f64] in H; destruct sa; discriminate.
  - destruct (xb =? 2047) eqn:Eb.
    + destruct (fb =? 0); [|destruct (xa =? 0); cbn [is_nan orb] in H; discriminate].
      destruct (xa =? 0); cbn [is_nan orb cmp_f64] in H; destruct sb; discriminate.
    + apply N.eqb_neq in Eb.
      (* both finite *)
      set (ma := if xa =? 0 then fa else two52 + fa). set (ea := if xa =? 0 then (-1074)%Z else (Z.of_N xa - 1075)%Z).
      set (mb := if xb =? 0 then fb else two52 + fb). set (eb := if xb =? 0 then (-1074)%Z else (Z.of_N xb - 1075)%Z).
      assert (Hfa : (if xa =? 0 then FFin sa fa (-1074) else FFin sa (two52 + fa) (Z.of_N xa - 1075)) = FFin sa ma ea) by (subst ma ea; destruct (xa =? 0); reflexivity).
      assert (Hfb : (if xb =? 0 then FFin sb fb (-1074) else FFin sb (two52 + fb) (Z.of_N xb - 1075)) = FFin sb mb eb) by (subst mb eb; destruct (xb =? 0); reflexivity).
      rewrite Hfa, Hfb in H. cbn [is_nan orb cmp_f64] in H.
      assert (Hrec : forall x f m e, x < 2048 -> f < two52 -> m = (if x =? 0 then f else two52 + f) ->
                 e = (if x =? 0 then (-1074)%Z else (Z.of_N x - 1075)%Z) -> m <> 0 -> canon m e).
      { intros x f m e Hx Hf -> -> Hm. split; [lia|]. destruct (N.eqb_spec x 0); [left; split; [lia|reflexivity]|right; unfold two52, two53 in *; lia]. }
      destruct (ma =? 0) eqn:Za, (mb =? 0) eqn:Zb; cbn [andb] in H.
      * (* both zero *) apply N.eqb_eq in Za, Zb. right. subst ma mb.
        assert (xa = 0 /\ fa = 0) as [Xa0 Fa0] by (destruct (N.eqb_spec xa 0); [split; assumption|unfold two52 in *; lia]).
        assert (xb = 0 /\ fb = 0) as [Xb0 Fb0] by (destruct (N.eqb_spec xb 0); [split; assumption|unfold two52 in *; lia]).
        rewrite Xa0, Fa0 in Da. rewrite Xb0, Fb0 in Db. split; [destruct sa; [right|left]; unfold two63 in *; lia|destruct sb; [right|left]; unfold two63 in *; lia].
      * destruct sb; discriminate.
      * destruct sa; discriminate.
      * apply N.eqb_neq in Za, Zb. left.
        assert (Ca : canon ma ea) by (apply (Hrec xa fa); auto).
        assert (Cb : canon mb eb) by (apply (Hrec xb fb); auto).
        assert (Hs : sa = sb /\ cmp_mag ma ea mb eb = Eq).
        { destruct sa, sb; [split; [reflexivity|]|discriminate H|discriminate H|split; [reflexivity|]];
            destruct (cmp_mag ma ea mb eb); cbn [CompOpp] in H; (reflexivity || discriminate H). }
        destruct Hs as [Hs Hc]. destruct (cmp_mag_eq _ _ _ _ Ca Cb Hc) as [Hm He].
        assert (xa = xb /\ fa = fb) as [Hx Hf].
        { subst ma mb ea eb. destruct (N.eqb_spec xa 0), (N.eqb_spec xb 0); unfold two52 in *; lia. }
        rewrite Da, Db, Hs, Hx, Hf. reflexivity.
Qed.


(* ---------- equal terms feed the hasher the same items ---------- *)

Definition hall := fix go (l : list term) : list hitem := match l with [] => [] | x :: r => hstream x ++ go r end.
Definition hallm := fix gom (m : list (term * term)) : list hitem :=
  match m with [] => [] | kv :: r => hstream (fst kv) ++ hstream (snd kv) ++ gom r end.

Lemma eqb_bytes a b : eq_bytes a b = true -> a = b.
Proof. unfold eq_bytes. intros H. apply cmp_bytes_eq. now destruct (cmp_bytes a b). Qed.

Lemma pid_eqb_hpid p q : pid_eqb p q = true -> hpid p = hpid q.
Proof.
  unfold pid_eqb, hpid. intros H. apply andb_prop in H as [H H4]. apply andb_prop in H as [H H3]. apply andb_prop in H as [H1 H2].
  apply eqb_bytes in H1. apply N.eqb_eq in H2, H3, H4. now rewrite H1, H2, H3, H4.
Qed.

Lemma float_hash a b : float_finite a = true -> float_finite b = true -> f64_eqb a b = true ->
  (if (a =? 0) || (a =? 9223372036854775808) then 0 else a) = (if (b =? 0) || (b =? 9223372036854775808) then 0 else b).
Proof.
  unfold float_finite. intros Ha Hb H. apply andb_prop in Ha as [Ha _]. apply andb_prop in Hb as [Hb _]. apply N.ltb_lt in Ha, Hb.
  destruct (f64_eqb_bits a b Ha Hb H) as [->|[[->| ->] [->| ->]]]; reflexivity.
Qed.

Definition EH (a : term) : Prop := forall b, wf a = true -> wf b = true -> teqb a b = true -> hstream a = hstream b.

Lemma alleq_hall l1 : Forall EH l1 -> forall l2, forallb wf l1 = true -> forallb wf l2 = true -> alleq l1 l2 = true ->
  hall l1 = hall l2 /\ len l1 = len l2.
Proof.
  induction 1 as [|x l1 Hx _ IH]; intros [|y l2] W1 W2 H; cbn [alleq] in H; try discriminate; [split; reflexivity|].
  cbn [forallb] in W1, W2. apply andb_prop in W1 as [Wx W1]. apply andb_prop in W2 as [Wy W2]. apply andb_prop in H as [H1 H2].
  destruct (IH l2 W1 W2 H2) as [Hh Hl]. cbn [hall]. rewrite (Hx y Wx Wy H1), Hh. split; [reflexivity|]. unfold len in *. cbn [length]. lia.
Qed.

Lemma alleqm_hallm m1 : Forall (fun kv => EH (fst kv) /\ EH (snd kv)) m1 -> forall m2,
  forallb (fun kv => wf (fst kv) && wf (snd kv)) m1 = true -> forallb (fun kv => wf (fst kv) && wf (snd kv)) m2 = true ->
  alleqm m1 m2 = true -> hallm m1 = hallm m2 /\ len m1 = len m2.
Proof.
  induction 1 as [|[k1 v1] m1 [Hk Hv] _ IH]; intros [|[k2 v2] m2] W1 W2 H; cbn [alleqm] in H; try discriminate; [split; reflexivity|].
  cbn [forallb fst snd] in W1, W2. apply andb_prop in W1 as [Wx W1]. apply andb_prop in W2 as [Wy W2].
  apply andb_prop in Wx as [Wk1 Wv1]. apply andb_prop in Wy as [Wk2 Wv2].
  apply andb_prop in H as [H H3]. apply andb_prop in H as [H1 H2]. cbn [fst snd] in Hk, Hv.
  destruct (IH m2 W1 W2 H3) as [Hh Hl]. cbn [hallm fst snd]. rewrite (Hk k2 Wk1 Wk2 H1), (Hv v2 Wv1 Wv2 H2), Hh.
  split; [reflexivity|]. unfold len in *. cbn [length]. lia.
Qed.

Theorem eq_implies_same_hash : forall a b, wf a = true -> wf b = true -> teqb a b = true -> hstream a = hstream b.
Proof.
  intros a. change (EH a). induction a using term_ind'; intros t2 W1 W2 Heq; destruct t2; cbn [teqb] in Heq; try discriminate Heq.
  - apply eqb_bytes in Heq. now subst.
  - apply Z.eqb_eq in Heq. now subst.
  - cbn [hstream]. cbn [wf] in W1, W2. now rewrite (float_hash _ _ W1 W2 Heq).
  - cbn [hstream]. now rewrite (pid_eqb_hpid _ _ Heq).
  - apply andb_prop in Heq as [Heq E3]. apply andb_prop in Heq as [E1 E2]. apply eqb_bytes in E1. apply N.eqb_eq in E2, E3. now subst.
  - apply andb_prop in Heq as [Heq E3]. apply andb_prop in Heq as [E1 E2]. apply eqb_bytes in E1, E3. apply N.eqb_eq in E2. now subst.
  - apply eqb_bytes in Heq. now subst.
  - apply andb_prop in Heq as [E1 E2]. apply eqb_bytes in E1. apply N.eqb_eq in E2. now subst.
  - apply eqb_bytes in Heq. now subst.
  - change (alleq l l0 = true) in Heq. cbn [wf] in W1, W2. destruct (alleq_hall l H l0 W1 W2 Heq) as [Hh Hl].
    change (hD 9 :: hL (len l) :: hall l = hD 9 :: hL (len l0) :: hall l0). now rewrite Hh, Hl.
  - apply andb_prop in Heq as [E1 E2]. change (alleq l l0 = true) in E1. cbn [wf] in W1, W2.
    apply andb_prop in W1 as [W1 W1t]. apply andb_prop in W2 as [W2 W2t]. destruct (alleq_hall l H l0 W1 W2 E1) as [Hh Hl].
    change (hD 10 :: hL (len l) :: hall l ++ hstream a = hD 10 :: hL (len l0) :: hall l0 ++ hstream t2).
    now rewrite Hh, Hl, (IHa t2 W1t W2t E2).
  - change (alleqm kvs kvs0 = true) in Heq. cbn [wf] in W1, W2. destruct (alleqm_hallm kvs H kvs0 W1 W2 Heq) as [Hh Hl].
    change (hD 11 :: hL (len kvs) :: hallm kvs = hD 11 :: hL (len kvs0) :: hallm kvs0). now rewrite Hh, Hl.
  - change (alleq l l0 = true) in Heq. cbn [wf] in W1, W2. destruct (alleq_hall l H l0 W1 W2 Heq) as [Hh Hl].
    change (hD 12 :: hL (len l) :: hall l = hD 12 :: hL (len l0) :: hall l0). now rewrite Hh, Hl.
  - apply andb_prop in Heq as [E1 E2]. apply Bool.eqb_prop in E1. apply eqb_bytes in E2. now subst.
  - apply andb_prop in Heq as [Heq E3]. apply andb_prop in Heq as [E1 E2]. apply eqb_bytes in E1, E2. apply N.eqb_eq in E3. now subst.
  - apply andb_prop in Heq as [Heq Efr]. apply andb_prop in Heq as [Heq Ep]. apply andb_prop in Heq as [Heq Eou].
    apply andb_prop in Heq as [Heq Eoi]. apply andb_prop in Heq as [Heq Em]. apply andb_prop in Heq as [Heq Enf].
    apply andb_prop in Heq as [Heq Ei]. apply andb_prop in Heq as [Ea Eu].
    change (alleq fr free = true) in Efr. cbn [wf] in W1, W2.
    apply andb_prop in W1 as [_ W1]. apply andb_prop in W2 as [_ W2]. destruct (alleq_hall fr H free W1 W2 Efr) as [Hh _].
    apply eqb_bytes in Eu, Em. apply N.eqb_eq in Ea, Ei, Enf, Eoi, Eou. subst.
    change ([hD 15; hN arity; hB uniq; hN index; hN num_free; hS m0; hN old_index; hN old_uniq] ++ hpid p ++ hall fr =
            [hD 15; hN arity; hB uniq; hN index; hN num_free; hS m0; hN old_index; hN old_uniq] ++ hpid p0 ++ hall free).
    now rewrite (pid_eqb_hpid _ _ Ep), Hh.
  - reflexivity.
Qed.
