(* Facts about the node model: names, exit notices, remote-call bookkeeping, routing, the receiver's fate. *)
From EDP Require Import Base.Bytes Term.Term Gen.PidConsts Order.Cmp Order.CmpFacts Codec.Decode Dist.PidAlloc Dist.Control Dist.Receive
  Dist.ControlFacts Elixir.WrapFacts Serde.Serde Serde.SerdeFacts Node.Node.
Open Scope N_scope.

Lemma NoDup_app_single {A} (l : list A) x : NoDup l -> ~ In x l -> NoDup (l ++ [x]).
Proof.
  intros Hl Hx. apply NoDup_rev in Hl. rewrite <- (rev_involutive (l ++ [x])). apply NoDup_rev. rewrite rev_app_distr. cbn [rev app].
  constructor; [rewrite <- in_rev; exact Hx|exact Hl].
Qed.

Lemma seqN_length s k : length (seqN s k) = k.
Proof. revert s. induction k as [|k IH]; intros s; [reflexivity|]. cbn [seqN length]. now rewrite IH. Qed.
Lemma seqN_in k : forall s i, In i (seqN s k) <-> s <= i < s + N.of_nat k.
Proof.
  induction k as [|k IH]; intros s i; cbn [seqN In]; [lia|]. rewrite IH. lia.
Qed.
Lemma seqN_nodup k : forall s, NoDup (seqN s k).
Proof. induction k as [|k IH]; intros s; cbn [seqN]; constructor; [rewrite seqN_in; lia|apply IH]. Qed.


(* ---------- identifiers ---------- *)
Lemma pid_eqb_refl p : pid_eqb p p = true.
Proof. unfold pid_eqb. now rewrite eq_bytes_refl, !N.eqb_refl. Qed.

Lemma pid_eqb_sym a b : pid_eqb a b = pid_eqb b a.
Proof.
  unfold pid_eqb. rewrite (eq_bytes_sym (pnode a) (pnode b)), (N.eqb_sym (pnum a)), (N.eqb_sym (pserial a)), (N.eqb_sym (pcreation a)).
  reflexivity.
Qed.

Lemma pid_eqb_fields a b : pid_eqb a b = true ->
  pnode a = pnode b /\ pnum a = pnum b /\ pserial a = pserial b /\ pcreation a = pcreation b.
Proof.
  unfold pid_eqb. intros H. apply andb_prop in H as [H H4]. apply andb_prop in H as [H H3]. apply andb_prop in H as [H1 H2].
  apply eq_bytes_true in H1. apply N.eqb_eq in H2, H3, H4. auto.
Qed.

Lemma pid_eqb_trans a b c : pid_eqb a b = true -> pid_eqb b c = true -> pid_eqb a c = true.
Proof.
  intros H1 H2. apply pid_eqb_fields in H1 as (A1 & A2 & A3 & A4). apply pid_eqb_fields in H2 as (B1 & B2 & B3 & B4).
  unfold pid_eqb. rewrite A1, B1, A2, B2, A3, B3, A4, B4. now rewrite eq_bytes_refl, !N.eqb_refl.
Qed.

(* ---------- names ---------- *)
(* right after a process terminates no name resolves to it any more, so each of its names can be registered again *)
Lemma lookup_filter_pid p : forall ns name q,
  lookup_name name (filter (fun np => negb (pid_eqb (snd np) p)) ns) = Some q -> pid_eqb q p = false.
Proof.
  induction ns as [|[n r] ns IH]; intros name q H; [discriminate|]. cbn [filter snd] in H.
  destruct (pid_eqb r p) eqn:E; cbn [negb] in H.
  - eapply IH. exact H.
  - cbn [lookup_name] in H. destruct (eq_bytes n name); [injection H as <-; exact E|eapply IH; exact H].
Qed.

Theorem terminated_name_gone st x name q :
  lookup_name name (n_names (terminate st x)) = Some q -> pid_eqb q (pp x) = false.
Proof. cbn [terminate n_names]. apply lookup_filter_pid. Qed.

Lemma lookup_none_filter (f : bytes * pidr -> bool) : forall ns name, lookup_name name ns = None -> lookup_name name (filter f ns) = None.
Proof.
  induction ns as [|[n r] ns IH]; intros name H; [reflexivity|]. cbn [lookup_name] in H.
  destruct (eq_bytes n name) eqn:E; [discriminate|]. cbn [filter]. destruct (f (n, r)); [cbn [lookup_name]; rewrite E|]; now apply IH.
Qed.

(* a name never maps to two processes: lookup is a function of the table, and registration refuses a taken name *)
Theorem register_taken cfg st name p q : lookup_name name (n_names st) = Some q ->
  step cfg st (ORegister name p) = (st, UErr).
Proof. intros H. cbn [step]. now rewrite H. Qed.

Lemma lookup_app ns : forall name n p, lookup_name name (ns ++ [(n, p)]) =
  match lookup_name name ns with Some q => Some q | None => if eq_bytes n name then Some p else None end.
Proof.
  induction ns as [|[m r] ns IH]; intros name n p; [reflexivity|]. cbn [app lookup_name].
  destruct (eq_bytes m name); [reflexivity|apply IH].
Qed.

Theorem register_free cfg st name p : lookup_name name (n_names st) = None ->
  exists st', step cfg st (ORegister name p) = (st', UOk) /\ lookup_name name (n_names st') = Some p /\
    forall other, eq_bytes name other = false -> lookup_name other (n_names st') = lookup_name other (n_names st).
Proof.
  intros H. cbn [step]. rewrite H. eexists. split; [reflexivity|]. cbn [n_names]. split.
  - rewrite lookup_app, H, eq_bytes_refl. reflexivity.
  - intros other Ho. rewrite lookup_app, Ho. destruct (lookup_name other (n_names st)); reflexivity.
Qed.

(* ---------- the receiver's fate ---------- *)
Lemma terminate_connected st x : n_connected (terminate st x) = n_connected st.
Proof. reflexivity. Qed.

Lemma deliver_connected st p m : n_connected (fst (deliver st p m)) = n_connected st.
Proof.
  unfold deliver. destruct (find_proc p (n_procs st)); [|reflexivity].
  destruct (crashes m); [|reflexivity].
  destruct (find_proc p (n_procs (set_procs st (update_proc p (add_event m) (n_procs st))))); reflexivity.
Qed.

Lemma route_connected st m pl : n_connected (route st m pl) = n_connected st.
Proof.
  unfold route. destruct m as [v fs|]; [|reflexivity].
  repeat (match goal with
          | |- n_connected (match ?x with _ => _ end) = _ => destruct x
          end; try reflexivity);
  unfold send_arm, regsend_arm, exit_arm, monexit_arm;
  repeat (match goal with
          | |- n_connected (match ?x with _ => _ end) = _ => destruct x
          | |- n_connected (fst (deliver _ _ _)) = _ => apply deliver_connected
          end; try reflexivity).
Qed.

Lemma on_frame_connected cfg st data : n_connected (on_frame cfg st data) = n_connected st.
Proof.
  unfold on_frame. destruct data as [|b0 rest]; [reflexivity|]. destruct (negb (b0 =? pass_through)); [reflexivity|].
  destruct (decode_trailing cfg rest) as [[ctl remaining]|]; [|reflexivity].
  destruct (from_term Gen.ControlTable.control_table ctl); [|reflexivity].
  destruct remaining; [apply route_connected|]. destruct (decode_trailing cfg (n :: remaining)) as [[pl ?]|]; [apply route_connected|reflexivity].
Qed.

(* the connection is deregistered only when the peer closes the stream or breaks framing: no frame content, no tick,
   no unknown recipient and no local operation ends it *)
Theorem disconnect_only_on_close_or_framing cfg st o :
  n_connected st = true -> n_connected (fst (step cfg st o)) = false -> o = OOverlong \/ o = OPeerClose.
Proof.
  intros Hc H. destruct o; auto; exfalso; cbn [step] in H.
  - destruct (allocate (n_alloc st)). cbn in H. congruence.
  - destruct (lookup_name name (n_names st)); cbn in H; congruence.
  - destruct (lookup_name name (n_names st)); cbn in H; congruence.
  - cbn in H. congruence.
  - destruct (deliver st to (MRegular msg)) as [st' ok] eqn:E. cbn [fst] in H.
    pose proof (deliver_connected st to (MRegular msg)) as D. rewrite E in D. cbn [fst] in D. congruence.
  - destruct (lookup_name name (n_names st)); [|cbn in H; congruence].
    destruct (deliver st p (MRegular msg)) as [st' ok] eqn:E. cbn [fst] in H.
    pose proof (deliver_connected st p (MRegular msg)) as D. rewrite E in D. cbn [fst] in D. congruence.
  - cbn in H. congruence.
  - cbn in H. congruence.
  - unfold make_reference in H. destruct (make_ref (n_refctr st)). cbn in H. congruence.
  - cbn in H. congruence.
  - destruct (allocate (n_alloc st)). rewrite Hc in H.
    destruct (Dist.Send.send_frame 0 [] _); cbn in H; congruence.
  - cbn in H. congruence.
  - rewrite Hc in H. cbn [fst] in H. rewrite on_frame_connected in H. congruence.
  - unfold remote_write in H. rewrite Hc in H. destruct (Dist.Send.send_frame 0 [] o); cbn in H; congruence.
  - rewrite Hc in H. unfold remote_write in H. cbn [with_refctr n_connected] in H. rewrite Hc in H.
    destruct (Dist.Send.send_frame 0 [] _); cbn in H; congruence.
  - unfold make_reference in H. destruct (make_ref (n_refctr st)). unfold remote_write in H. cbn [with_refctr n_connected] in H. rewrite Hc in H.
    destruct (Dist.Send.send_frame 0 [] _); cbn in H; congruence.
Qed.

(* a tick, a frame with a foreign marker, an undecodable control term, a term that is no control tuple: the node's
   state is exactly what it was *)
Theorem unusable_frames_change_nothing cfg st :
  on_frame cfg st [] = st /\
  (forall b0 rest, (b0 =? pass_through) = false -> on_frame cfg st (b0 :: rest) = st) /\
  (forall rest, decode_trailing cfg rest = None -> on_frame cfg st (pass_through :: rest) = st) /\
  (forall rest ctl remaining e, decode_trailing cfg rest = Some (ctl, remaining) ->
     from_term Gen.ControlTable.control_table ctl = CErr e -> on_frame cfg st (pass_through :: rest) = st).
Proof.
  split; [reflexivity|]. split; [intros b0 rest H; cbn [on_frame]; now rewrite H|]. split.
  - intros rest H. cbn [on_frame]. change (pass_through =? pass_through) with true. cbn [negb]. now rewrite H.
  - intros rest ctl remaining e H1 H2. cbn [on_frame]. change (pass_through =? pass_through) with true. cbn [negb].
    now rewrite H1, H2.
Qed.

(* ---------- routing ---------- *)
(* a message for a recipient that does not exist (no such process, no such name, no such call) is dropped and
   nothing else changes *)
Theorem unknown_recipient_dropped st fs body p :
  pid_of (role 2 fs) = Some p -> find_proc p (n_procs st) = None ->
  find (fun e => same_key (fst e) p) (n_pending st) = None ->
  route st (CMsg 2 fs) (Some body) = st.
Proof. intros H1 H2 H3. cbn [route]. unfold send_arm. now rewrite H1, H2, H3. Qed.

Theorem unknown_name_dropped st fs body name :
  role 5 fs = TAtom name -> lookup_name name (n_names st) = None -> route st (CMsg 6 fs) (Some body) = st.
Proof. intros H1 H2. cbn [route]. unfold regsend_arm. now rewrite H1, H2. Qed.

(* a message for a live process is handed to exactly that process: its record gains the message at the end, every
   other process and every table is untouched *)
Theorem send_routed_to_its_process st fs body p : crashes (MRegular body) = false ->
  pid_of (role 2 fs) = Some p -> (exists x, find_proc p (n_procs st) = Some x) ->
  route st (CMsg 2 fs) (Some body) = set_procs st (update_proc p (add_event (MRegular body)) (n_procs st)).
Proof.
  intros Hc H1 [x H2]. cbn [route]. unfold send_arm. rewrite H1, H2. unfold deliver. rewrite H2, Hc. reflexivity.
Qed.

Lemma update_other p f : (forall x, pp (f x) = pp x) ->
  forall ps q, pid_eqb q p = false -> find_proc q (update_proc p f ps) = find_proc q ps.
Proof.
  intros Hf. induction ps as [|x ps IH]; intros q Hq; [reflexivity|]. cbn [update_proc]. destruct (pid_eqb (pp x) p) eqn:E.
  - cbn [find_proc]. rewrite Hf. destruct (pid_eqb (pp x) q) eqn:E2; [|reflexivity].
    exfalso. rewrite pid_eqb_sym in E2. rewrite (pid_eqb_trans q (pp x) p E2 E) in Hq. discriminate.
  - cbn [find_proc]. destruct (pid_eqb (pp x) q); [reflexivity|apply IH; exact Hq].
Qed.

(* a reply is handed to the call whose reply identifier it names, and to no other *)
Theorem reply_goes_to_its_call st fs body p rp i sh :
  pid_of (role 2 fs) = Some p -> find_proc p (n_procs st) = None ->
  find (fun e => same_key (fst e) p) (n_pending st) = Some (rp, (i, sh)) ->
  n_results (route st (CMsg 2 fs) (Some body)) = n_results st ++ [(i, RReply body)] /\
  n_pending (route st (CMsg 2 fs) (Some body)) = filter (fun e => negb (same_key (fst e) p)) (n_pending st) /\
  same_key rp p = true.
Proof.
  intros H1 H2 H3. cbn [route]. unfold send_arm. rewrite H1, H2, H3. cbn [n_results n_pending]. split; [reflexivity|]. split; [reflexivity|].
  apply find_some in H3. exact (proj2 H3).
Qed.

(* ---------- remote calls: bookkeeping ---------- *)
(* every call started is either pending or has returned, never both and never twice; the reply identifiers of the
   pending calls are pairwise distinct.  The identifiers come from the allocator in increasing order; the statement
   is for runs in which the identifier counter does not wrap (fewer than 2^20 allocations). *)
Definition pend_ids (st : nstate) : list N := map (fun e => pnum (fst e)) (n_pending st).
Definition pend_calls (st : nstate) : list N := map (fun e => fst (snd e)) (n_pending st).
Definition call_numbers (st : nstate) : list N := pend_calls st ++ map fst (n_results st).

Record rpc_inv (st : nstate) : Prop := {
  ri_ids : NoDup (pend_ids st);
  ri_old : forall e, In e (n_pending st) -> pnum (fst e) < next_id (n_alloc st);
  ri_nodup : NoDup (call_numbers st);
  ri_bound : forall i, In i (call_numbers st) -> i < n_calls st;
  ri_count : N.of_nat (length (call_numbers st)) = n_calls st
}.

(* what the bookkeeping invariant says about returns: no call number is recorded twice, none is both waiting and returned *)
Lemma nodup_app_split {A} (l1 l2 : list A) : NoDup (l1 ++ l2) -> NoDup l2 /\ (forall x, In x l1 -> ~ In x l2).
Proof.
  induction l1 as [|x l1 IH]; intros N; [split; [exact N|intros ? []]|].
  cbn [app] in N. inversion N as [|? ? Hx Hn]; subst. destruct (IH Hn) as [N2 D]. split; [exact N2|].
  intros y [->|Hy] Hr; [apply Hx; apply in_or_app; right; exact Hr|exact (D y Hy Hr)].
Qed.
Lemma returned_once st : rpc_inv st ->
  NoDup (map fst (n_results st)) /\ (forall i, In i (pend_calls st) -> ~ In i (map fst (n_results st))).
Proof. intros [_ _ N _ _]. unfold call_numbers in N. exact (nodup_app_split _ _ N). Qed.

Lemma rpc_inv_init name c conn : rpc_inv (node_init name c conn).
Proof. constructor; cbn; try constructor; intros; contradiction. Qed.

(* the parts of the state the bookkeeping lives in *)
Definition rpc_part (st : nstate) := (n_pending st, n_results st, n_calls st, n_alloc st).

Lemma rpc_inv_ext st st' : rpc_part st' = rpc_part st -> rpc_inv st -> rpc_inv st'.
Proof.
  unfold rpc_part. intros H [A B C D E]. injection H as H1 H2 H3 H4.
  constructor; unfold pend_ids, call_numbers, pend_calls in *; rewrite ?H1, ?H2, ?H3, ?H4; assumption.
Qed.

Lemma deliver_rpc_part st p m : rpc_part (fst (deliver st p m)) = rpc_part st.
Proof.
  unfold deliver. destruct (find_proc p (n_procs st)); [|reflexivity].
  destruct (crashes m); [|reflexivity].
  destruct (find_proc p (n_procs (set_procs st (update_proc p (add_event m) (n_procs st))))); reflexivity.
Qed.

(* removing the one pending entry a reply names *)
Lemma filter_key_other p : forall l, (forall e, In e l -> pnum (fst e) <> pnum p) -> filter (fun e : pidr * (N * bool) => negb (same_key (fst e) p)) l = l.
Proof.
  induction l as [|e l IH]; intros H; [reflexivity|]. cbn [filter].
  assert (Hk : same_key (fst e) p = false).
  { unfold same_key. destruct (pnum (fst e) =? pnum p) eqn:E; [|reflexivity]. apply N.eqb_eq in E. exfalso. exact (H e (or_introl eq_refl) E). }
  rewrite Hk. cbn [negb]. f_equal. apply IH. intros e' He'. apply H. right. exact He'.
Qed.

Lemma find_filter_split p : forall (l : list (pidr * (N * bool))) e,
  NoDup (map (fun e => pnum (fst e)) l) -> find (fun e => same_key (fst e) p) l = Some e ->
  exists l1 l2, l = l1 ++ e :: l2 /\ filter (fun e => negb (same_key (fst e) p)) l = l1 ++ l2.
Proof.
  induction l as [|x l IH]; intros e Hnd Hf; [discriminate|]. cbn [find] in Hf. cbn [map] in Hnd. inversion Hnd as [|? ? Hnotin Hnd']; subst.
  destruct (same_key (fst x) p) eqn:E.
  - injection Hf as <-. exists [], l. split; [reflexivity|]. cbn [filter app]. rewrite E. cbn [negb].
    apply filter_key_other. intros e' He' Heq. apply Hnotin.
    assert (Hx : pnum (fst x) = pnum p).
    { unfold same_key in E. apply andb_prop in E as [E _]. apply andb_prop in E as [E _]. now apply N.eqb_eq in E. }
    rewrite Hx, <- Heq. apply in_map_iff. exists e'. auto.
  - destruct (IH e Hnd' Hf) as (l1 & l2 & H1 & H2). exists (x :: l1), l2. split; [cbn [app]; now rewrite H1|].
    cbn [filter app]. rewrite E. cbn [negb]. now rewrite H2.
Qed.

Lemma NoDup_remove_mid {A} (l1 l2 : list A) x : NoDup (l1 ++ x :: l2) -> NoDup (l1 ++ l2).
Proof. apply NoDup_remove_1. Qed.

Lemma send_arm_rpc_inv st fs pl : rpc_inv st -> rpc_inv (send_arm st fs pl).
Proof.
  intros Hinv. unfold send_arm.
  assert (Hd : forall p msg, rpc_inv (fst (deliver st p msg))).
  { intros p msg. eapply rpc_inv_ext; [apply deliver_rpc_part|exact Hinv]. }
  destruct pl as [body|]; [|exact Hinv]. destruct (pid_of (role 2 fs)) as [p|]; [|exact Hinv].
  destruct (find_proc p (n_procs st)); [apply Hd|].
  destruct (find (fun e => same_key (fst e) p) (n_pending st)) as [[rp [i sh]]|] eqn:Ef; [|exact Hinv].
  destruct Hinv as [A B C D E].
  destruct (find_filter_split p (n_pending st) (rp, (i, sh)) A Ef) as (l1 & l2 & Hl & Hfl).
  constructor; unfold pend_ids, call_numbers, pend_calls in *; cbn [n_pending n_results n_calls n_alloc].
  + rewrite Hfl. rewrite Hl in A. rewrite map_app in *. cbn [map] in A. now apply NoDup_remove_1 in A.
  + intros e He. apply B. rewrite Hfl in He. rewrite Hl. apply in_app_or in He as [He|He]; apply in_or_app; [left|right; right]; exact He.
  + rewrite Hfl, Hl in *. rewrite !map_app in *. cbn [map fst snd] in *.
    rewrite <- app_assoc in *. cbn [app] in C.
    eapply Permutation.Permutation_NoDup; [|exact C].
    apply Permutation.Permutation_app_head. rewrite app_assoc. apply Permutation.Permutation_cons_append.
  + intros j Hj. apply D. rewrite Hfl in Hj. rewrite Hl. rewrite !map_app in *. cbn [map fst snd] in *.
    apply in_app_or in Hj as [Hj|Hj].
    * apply in_app_or in Hj as [Hj|Hj]; apply in_or_app; left; apply in_or_app; [left|right; right]; exact Hj.
    * apply in_app_or in Hj as [Hj|[<-|[]]]; [apply in_or_app; right; exact Hj|].
      apply in_or_app. left. apply in_or_app. right. left. reflexivity.
  + rewrite <- E. rewrite Hfl, Hl. repeat (rewrite ?map_app, ?app_length, ?map_length; cbn [map length]). lia.
Qed.

Lemma route_rpc_inv st m pl : rpc_inv st -> rpc_inv (route st m pl).
Proof.
  intros Hinv.
  assert (Hd : forall p msg, rpc_inv (fst (deliver st p msg))).
  { intros p msg. eapply rpc_inv_ext; [apply deliver_rpc_part|exact Hinv]. }
  unfold route. destruct m as [v fs|]; [|exact Hinv].
  repeat (match goal with
          | |- rpc_inv (match ?x with _ => _ end) => destruct x
          end; try exact Hinv; try (apply send_arm_rpc_inv; exact Hinv));
  unfold regsend_arm, exit_arm, monexit_arm;
  repeat (match goal with
          | |- rpc_inv (match ?x with _ => _ end) => destruct x
          | |- rpc_inv (fst (deliver _ _ _)) => apply Hd
          end; try exact Hinv).
Qed.

Lemma on_frame_rpc_inv cfg st data : rpc_inv st -> rpc_inv (on_frame cfg st data).
Proof.
  intros H. unfold on_frame. destruct data as [|b0 rest]; [exact H|]. destruct (negb (b0 =? pass_through)); [exact H|].
  destruct (decode_trailing cfg rest) as [[ctl remaining]|]; [|exact H].
  destruct (from_term Gen.ControlTable.control_table ctl); [|exact H].
  destruct remaining; [now apply route_rpc_inv|]. destruct (decode_trailing cfg (n :: remaining)) as [[pl ?]|]; [now apply route_rpc_inv|exact H].
Qed.

Lemma allocate_next st : next_id st < max_processes_per_node ->
  p_id (fst (allocate st)) = next_id st /\ next_id (snd (allocate st)) = next_id st + 1.
Proof.
  intros H. unfold allocate. destruct (max_processes_per_node <=? next_id st) eqn:E; [apply N.leb_le in E; lia|]. split; reflexivity.
Qed.

Theorem rpc_inv_step cfg st o : rpc_inv st -> next_id (n_alloc st) < max_processes_per_node -> rpc_inv (fst (step cfg st o)).
Proof.
  intros Hinv Hm. pose proof Hinv as [A B C D E]. destruct o; cbn [step].
  - (* spawn: the allocator advances *)
    destruct (allocate (n_alloc st)) as [p a'] eqn:Ea. cbn [fst].
    pose proof (allocate_next (n_alloc st) Hm) as [_ Hn]. rewrite Ea in Hn. cbn [snd] in Hn.
    constructor; unfold pend_ids, call_numbers, pend_calls in *; cbn [n_pending n_results n_calls n_alloc]; try assumption.
    intros e He. rewrite Hn. specialize (B e He). lia.
  - destruct (lookup_name name (n_names st)); cbn [fst]; [exact Hinv|eapply rpc_inv_ext; [|exact Hinv]; reflexivity].
  - destruct (lookup_name name (n_names st)); cbn [fst]; [eapply rpc_inv_ext; [|exact Hinv]; reflexivity|exact Hinv].
  - exact Hinv.
  - destruct (deliver st to (MRegular msg)) as [st' ok] eqn:Ed. cbn [fst].
    eapply rpc_inv_ext; [|exact Hinv]. pose proof (deliver_rpc_part st to (MRegular msg)) as H. now rewrite Ed in H.
  - destruct (lookup_name name (n_names st)) as [p|]; [|exact Hinv].
    destruct (deliver st p (MRegular msg)) as [st' ok] eqn:Ed. cbn [fst].
    eapply rpc_inv_ext; [|exact Hinv]. pose proof (deliver_rpc_part st p (MRegular msg)) as H. now rewrite Ed in H.
  - eapply rpc_inv_ext; [|exact Hinv]; reflexivity.
  - eapply rpc_inv_ext; [|exact Hinv]; reflexivity.
  - unfold make_reference. destruct (make_ref (n_refctr st)). cbn [fst]. eapply rpc_inv_ext; [|exact Hinv]; reflexivity.
  - eapply rpc_inv_ext; [|exact Hinv]; reflexivity.
  - (* a call starts: fresh identifier, fresh call number *)
    destruct (allocate (n_alloc st)) as [p a'] eqn:Ea.
    pose proof (allocate_next (n_alloc st) Hm) as [Hid Hn]. rewrite Ea in Hid, Hn. cbn [fst snd] in Hid, Hn.
    assert (Hfresh : ~ In (n_calls st) (call_numbers st)) by (intros Hin; specialize (D _ Hin); lia).
    destruct (n_connected st).
    + destruct (Dist.Send.send_frame 0 [] _); cbn [fst].
      * constructor; unfold pend_ids, call_numbers, pend_calls in *; cbn [n_pending n_results n_calls n_alloc].
        -- rewrite map_app. cbn [map fst mk_pid pnum]. rewrite Hid.
           apply NoDup_app_single; [exact A|]. intros Hin. apply in_map_iff in Hin as (e & He1 & He2). specialize (B e He2). lia.
        -- intros e He. apply in_app_or in He as [He|[<-|[]]]; [specialize (B e He); lia|]. cbn [fst mk_pid pnum]. lia.
        -- rewrite map_app. cbn [map fst snd]. rewrite <- app_assoc. cbn [app].
           eapply Permutation.Permutation_NoDup; [apply Permutation.Permutation_middle|]. constructor; assumption.
        -- intros j Hj. rewrite map_app in Hj. cbn [map fst snd] in Hj. rewrite <- app_assoc in Hj. cbn [app] in Hj.
           apply in_app_or in Hj as [Hj|[<-|Hj]]; [|lia|]; [assert (j < n_calls st) by (apply D; apply in_or_app; now left); lia
                                                          |assert (j < n_calls st) by (apply D; apply in_or_app; now right); lia].
        -- rewrite <- E. repeat (rewrite ?map_app, ?app_length, ?map_length; cbn [map length]). lia.
      * constructor; unfold pend_ids, call_numbers, pend_calls in *; cbn [n_pending n_results n_calls n_alloc]; try assumption.
        -- intros e He. specialize (B e He). lia.
        -- rewrite map_app. cbn [map fst]. rewrite app_assoc. apply NoDup_app_single; assumption.
        -- intros j Hj. rewrite map_app in Hj. cbn [map fst] in Hj. rewrite app_assoc in Hj.
           apply in_app_or in Hj as [Hj|[<-|[]]]; [specialize (D _ Hj)|]; lia.
        -- rewrite <- E. repeat (rewrite ?map_app, ?app_length, ?map_length; cbn [map length]). lia.
    + cbn [fst]. constructor; unfold pend_ids, call_numbers, pend_calls in *; cbn [n_pending n_results n_calls n_alloc]; try assumption.
      * intros e He. specialize (B e He). lia.
      * rewrite map_app. cbn [map fst]. rewrite app_assoc. apply NoDup_app_single; assumption.
      * intros j Hj. rewrite map_app in Hj. cbn [map fst] in Hj. rewrite app_assoc in Hj.
        apply in_app_or in Hj as [Hj|[<-|[]]]; [specialize (D _ Hj)|]; lia.
      * rewrite <- E. repeat (rewrite ?map_app, ?app_length, ?map_length; cbn [map length]). lia.
  - (* the short timeouts fire: those calls move from pending to returned *)
    cbn [fst].
    assert (Hperm : Permutation.Permutation
              (map (fun e : pidr * (N * bool) => fst (snd e)) (filter (fun e => negb (snd (snd e))) (n_pending st)) ++
               map fst (n_results st ++ map (fun e : pidr * (N * bool) => (fst (snd e), RTimeout)) (filter (fun e => snd (snd e)) (n_pending st))))
              (call_numbers st)).
    { unfold call_numbers, pend_calls. rewrite map_app, map_map. cbn [fst].
      rewrite app_assoc. apply Permutation.Permutation_app_tail || idtac.
      rewrite <- app_assoc.
      etransitivity; [apply Permutation.Permutation_app_head, Permutation.Permutation_app_comm|].
      rewrite app_assoc. apply Permutation.Permutation_app_tail.
      rewrite <- map_app. apply Permutation.Permutation_map.
      clear. induction (n_pending st) as [|e l IH]; [reflexivity|]. cbn [filter].
      destruct (snd (snd e)); cbn [negb app].
      - etransitivity; [apply Permutation.Permutation_sym, Permutation.Permutation_middle|]. now apply Permutation.perm_skip.
      - now apply Permutation.perm_skip. }
    constructor; unfold pend_ids; cbn [n_pending n_results n_calls n_alloc].
    + unfold pend_ids in A. clear - A. induction (n_pending st) as [|e l IH]; [constructor|]. cbn [map] in A. inversion A; subst.
      cbn [filter]. destruct (negb (snd (snd e))); [|auto]. cbn [map]. constructor; [|auto].
      intros Hin. apply in_map_iff in Hin as (x & Hx1 & Hx2). apply filter_In in Hx2 as [Hx2 _].
      match goal with H : ~ In _ _ |- _ => apply H end. rewrite <- Hx1. apply in_map_iff. eauto.
    + intros e He. apply filter_In in He as [He _]. exact (B e He).
    + unfold call_numbers, pend_calls. cbn [n_pending n_results]. eapply Permutation.Permutation_NoDup; [apply Permutation.Permutation_sym; exact Hperm|exact C].
    + unfold call_numbers, pend_calls. cbn [n_pending n_results]. intros j Hj. apply D. eapply Permutation.Permutation_in; [exact Hperm|exact Hj].
    + unfold call_numbers, pend_calls. cbn [n_pending n_results]. rewrite (Permutation.Permutation_length Hperm). exact E.
  - destruct (n_connected st); cbn [fst]; [now apply on_frame_rpc_inv|exact Hinv].
  - eapply rpc_inv_ext; [|exact Hinv]; reflexivity.
  - eapply rpc_inv_ext; [|exact Hinv]; reflexivity.
  - eapply rpc_inv_ext; [|exact Hinv]. unfold remote_write. destruct (n_connected st); [destruct (Dist.Send.send_frame 0 [] o)|]; reflexivity.
  - eapply rpc_inv_ext; [|exact Hinv]. destruct (n_connected st) eqn:Ec; [|reflexivity]. unfold remote_write. cbn [with_refctr n_connected]. rewrite Ec.
    destruct (Dist.Send.send_frame 0 [] _); reflexivity.
  - eapply rpc_inv_ext; [|exact Hinv]. unfold make_reference. destruct (make_ref (n_refctr st)). unfold remote_write. cbn [with_refctr n_connected].
    destruct (n_connected st); [destruct (Dist.Send.send_frame 0 [] _)|]; reflexivity.
Qed.

(* once every call has returned nothing is left in the table *)
Theorem all_returned_nothing_pending st : rpc_inv st ->
  (forall i, i < n_calls st -> In i (map fst (n_results st))) -> n_pending st = [].
Proof.
  intros [A B C D E] Hall.
  assert (Hlen : (N.to_nat (n_calls st) <= length (map fst (n_results st)))%nat).
  { rewrite <- (seqN_length 0 (N.to_nat (n_calls st))). apply NoDup_incl_length; [apply seqN_nodup|].
    intros i Hi. apply Hall. apply seqN_in in Hi. lia. }
  unfold call_numbers, pend_calls in E. rewrite app_length, map_length in E.
  destruct (n_pending st) as [|e l]; [reflexivity|]. cbn [length] in E. lia.
Qed.

(* the invariant holds along every run that stays below the identifier wrap *)
Lemma route_alloc st m pl : n_alloc (route st m pl) = n_alloc st.
Proof.
  assert (Hd : forall p msg, n_alloc (fst (deliver st p msg)) = n_alloc st).
  { intros p msg. pose proof (deliver_rpc_part st p msg) as H. unfold rpc_part in H. now injection H. }
  unfold route. destruct m as [v fs|]; [|reflexivity].
  repeat (match goal with
          | |- n_alloc (match ?x with _ => _ end) = _ => destruct x
          end; try reflexivity);
  unfold send_arm, regsend_arm, exit_arm, monexit_arm;
  repeat (match goal with
          | |- n_alloc (match ?x with _ => _ end) = _ => destruct x
          | |- n_alloc (fst (deliver _ _ _)) = _ => apply Hd
          end; try reflexivity).
Qed.

Lemma on_frame_alloc cfg st data : n_alloc (on_frame cfg st data) = n_alloc st.
Proof.
  unfold on_frame. destruct data as [|b0 rest]; [reflexivity|]. destruct (negb (b0 =? pass_through)); [reflexivity|].
  destruct (decode_trailing cfg rest) as [[ctl remaining]|]; [|reflexivity].
  destruct (from_term Gen.ControlTable.control_table ctl); [|reflexivity].
  destruct remaining; [apply route_alloc|]. destruct (decode_trailing cfg (n :: remaining)) as [[pl ?]|]; [apply route_alloc|reflexivity].
Qed.

Lemma step_next_id cfg st o : next_id (n_alloc st) < max_processes_per_node ->
  next_id (n_alloc (fst (step cfg st o))) <= next_id (n_alloc st) + 1.
Proof.
  intros Hm. pose proof (allocate_next (n_alloc st) Hm) as [_ Hn].
  assert (Hd : forall p msg, n_alloc (fst (deliver st p msg)) = n_alloc st).
  { intros p msg. pose proof (deliver_rpc_part st p msg) as H. unfold rpc_part in H. now injection H. }
  destruct o; cbn [step].
  - destruct (allocate (n_alloc st)) as [p a'] eqn:Ea. cbn [fst snd n_alloc] in *. lia.
  - destruct (lookup_name name (n_names st)); cbn [fst n_alloc]; lia.
  - destruct (lookup_name name (n_names st)); cbn [fst n_alloc]; lia.
  - cbn [fst]. lia.
  - destruct (deliver st to (MRegular msg)) as [st' ok] eqn:Ed. cbn [fst]. specialize (Hd to (MRegular msg)). rewrite Ed in Hd. cbn [fst] in Hd. rewrite Hd. lia.
  - destruct (lookup_name name (n_names st)) as [p|]; [|cbn [fst]; lia].
    destruct (deliver st p (MRegular msg)) as [st' ok] eqn:Ed. cbn [fst]. specialize (Hd p (MRegular msg)). rewrite Ed in Hd. cbn [fst] in Hd. rewrite Hd. lia.
  - cbn [fst set_procs n_alloc]. lia.
  - cbn [fst set_procs n_alloc]. lia.
  - unfold make_reference. destruct (make_ref (n_refctr st)). cbn [fst set_procs with_refctr n_alloc]. lia.
  - cbn [fst set_procs n_alloc]. lia.
  - destruct (allocate (n_alloc st)) as [p a'] eqn:Ea. cbn [snd] in Hn.
    destruct (n_connected st); [destruct (Dist.Send.send_frame 0 [] _)|]; cbn [fst n_alloc]; lia.
  - cbn [fst n_alloc]. lia.
  - destruct (n_connected st); cbn [fst]; [rewrite on_frame_alloc|]; lia.
  - cbn [fst disconnect n_alloc]. lia.
  - cbn [fst disconnect n_alloc]. lia.
  - unfold remote_write. destruct (n_connected st); [destruct (Dist.Send.send_frame 0 [] o)|]; cbn [fst with_wrote n_alloc]; lia.
  - destruct (n_connected st) eqn:Ec; [|cbn [fst]; lia]. unfold remote_write. cbn [with_refctr n_connected]. rewrite Ec.
    destruct (Dist.Send.send_frame 0 [] _); cbn [fst with_wrote with_refctr n_alloc]; lia.
  - unfold make_reference. destruct (make_ref (n_refctr st)). unfold remote_write. cbn [with_refctr n_connected].
    destruct (n_connected st); [destruct (Dist.Send.send_frame 0 [] _)|]; cbn [fst with_wrote with_refctr n_alloc]; lia.
Qed.

Theorem rpc_inv_run cfg : forall ops st, rpc_inv st ->
  next_id (n_alloc st) + N.of_nat (length ops) <= max_processes_per_node -> rpc_inv (run cfg st ops).
Proof.
  induction ops as [|o ops IH]; intros st Hinv Hb; [exact Hinv|]. cbn [length] in Hb. unfold run. cbn [fold_left].
  apply IH; [apply rpc_inv_step; [exact Hinv|lia]|].
  pose proof (step_next_id cfg st o ltac:(lia)). lia.
Qed.

(* ---------- exit notices ---------- *)
Lemma update_same p f : (forall x, pp (f x) = pp x) ->
  forall ps q y, pid_eqb p q = true -> find_proc q ps = Some y -> find_proc q (update_proc p f ps) = Some (f y).
Proof.
  intros Hf. induction ps as [|x ps IH]; intros q y Hpq Hy; [discriminate|]. cbn [find_proc] in Hy. cbn [update_proc].
  destruct (pid_eqb (pp x) q) eqn:E.
  - injection Hy as <-. rewrite pid_eqb_sym in Hpq. rewrite (pid_eqb_trans _ _ _ E Hpq). cbn [find_proc]. now rewrite Hf, E.
  - destruct (pid_eqb (pp x) p) eqn:E2.
    + exfalso. rewrite (pid_eqb_trans _ _ _ E2 Hpq) in E. discriminate.
    + cbn [find_proc]. rewrite E. now apply IH.
Qed.

Lemma add_event_pp m x : pp (add_event m x) = pp x.
Proof. reflexivity. Qed.

(* delivering one notice per listed identifier: a live process gets one for every entry that names it, in order *)
Lemma fold_notices {A} (key : A -> pidr) (mk : A -> lmsg) : forall (ls : list A) ps q y, find_proc q ps = Some y ->
  exists y', find_proc q (fold_left (fun ps a => update_proc (key a) (add_event (mk a)) ps) ls ps) = Some y' /\
    pevents y' = pevents y ++ map mk (filter (fun a => pid_eqb (key a) q) ls) /\ pp y' = pp y /\ plinks y' = plinks y /\ pmons y' = pmons y.
Proof.
  induction ls as [|a ls IH]; intros ps q y Hy.
  - exists y. cbn [fold_left filter map]. rewrite app_nil_r. auto.
  - cbn [fold_left filter]. destruct (pid_eqb (key a) q) eqn:E.
    + pose proof (update_same (key a) (add_event (mk a)) (add_event_pp (mk a)) ps q y E Hy) as H1.
      destruct (IH _ q _ H1) as (y' & F & Ev & P & L & M). exists y'. split; [exact F|]. split; [|auto].
      rewrite Ev. cbn [add_event pevents map]. now rewrite <- app_assoc.
    + rewrite pid_eqb_sym in E.
      pose proof (update_other (key a) (add_event (mk a)) (add_event_pp (mk a)) ps q E) as H1. rewrite Hy in H1.
      exact (IH _ q y H1).
Qed.

Lemma remove_other p : forall ps q, pid_eqb q p = false -> find_proc q (remove_proc p ps) = find_proc q ps.
Proof.
  induction ps as [|x ps IH]; intros q Hq; [reflexivity|]. cbn [remove_proc]. destruct (pid_eqb (pp x) p) eqn:E.
  - cbn [find_proc]. destruct (pid_eqb (pp x) q) eqn:E2; [|reflexivity].
    exfalso. rewrite pid_eqb_sym in E2. rewrite (pid_eqb_trans q (pp x) p E2 E) in Hq. discriminate.
  - cbn [find_proc]. destruct (pid_eqb (pp x) q); [reflexivity|apply IH; exact Hq].
Qed.

(* when a process terminates, every other live process receives, after what it already had, one exit notice per link
   entry that names it and one monitor notice (with the monitor's reference) per monitor entry that names it, and
   nothing else; the terminated identifier no longer resolves *)
Theorem exit_notices st x q y : pid_eqb q (pp x) = false -> find_proc q (n_procs st) = Some y ->
  exists y', find_proc q (n_procs (terminate st x)) = Some y' /\
    pevents y' = pevents y ++ map (fun _ => MExit (pp x) (TAtom n_error)) (filter (fun l => pid_eqb l q) (plinks x))
                           ++ map (fun mr => MMonitorExit (pp x) (snd mr) (TAtom n_error)) (filter (fun mr => pid_eqb (fst mr) q) (pmons x)).
Proof.
  intros Hq Hy. cbn [terminate n_procs].
  destruct (fold_notices (fun l : pidr => l) (fun _ => MExit (pp x) (TAtom n_error)) (plinks x) (n_procs st) q y Hy) as (y1 & F1 & E1 & _).
  destruct (fold_notices (fun mr : pidr * term => fst mr) (fun mr => MMonitorExit (pp x) (snd mr) (TAtom n_error)) (pmons x) _ q y1 F1)
    as (y2 & F2 & E2 & _).
  exists y2. split; [rewrite remove_other by exact Hq; exact F2|]. rewrite E2, E1. now rewrite <- app_assoc.
Qed.

(* ... and the terminated identifier no longer resolves (identifiers of live processes are pairwise distinct: they
   come from the allocator, C16) *)
Fixpoint pids_distinct (ps : list proc) : bool :=
  match ps with [] => true | x :: r => negb (existsb (fun y => pid_eqb (pp y) (pp x)) r) && pids_distinct r end.

Lemma find_none_of_absent p : forall ps, existsb (fun y => pid_eqb (pp y) p) ps = false -> find_proc p ps = None.
Proof.
  induction ps as [|x ps IH]; intros H; [reflexivity|]. cbn [existsb] in H. apply orb_false_iff in H as [H1 H2].
  cbn [find_proc]. rewrite H1. now apply IH.
Qed.

Lemma remove_self : forall ps p, pids_distinct ps = true -> find_proc p (remove_proc p ps) = None.
Proof.
  induction ps as [|x ps IH]; intros p Hd; [reflexivity|]. cbn [pids_distinct] in Hd. apply andb_prop in Hd as [Hx Hd].
  apply negb_true_iff in Hx. cbn [remove_proc]. destruct (pid_eqb (pp x) p) eqn:E.
  - apply find_none_of_absent. rewrite <- Hx. clear - E. induction ps as [|z ps IHz]; [reflexivity|]. cbn [existsb]. rewrite IHz. f_equal.
    destruct (pid_eqb (pp z) p) eqn:Ez.
    + symmetry. rewrite pid_eqb_sym in E. exact (pid_eqb_trans _ _ _ Ez E).
    + destruct (pid_eqb (pp z) (pp x)) eqn:Ezx; [|reflexivity]. rewrite (pid_eqb_trans _ _ _ Ezx E) in Ez. discriminate.
  - cbn [find_proc]. rewrite E. now apply IH.
Qed.

Lemma fold_update_pids {A} (key : A -> pidr) (f : A -> proc -> proc) : (forall a x, pp (f a x) = pp x) ->
  forall (ls : list A) ps, map pp (fold_left (fun ps a => update_proc (key a) (f a) ps) ls ps) = map pp ps.
Proof.
  intros Hf. induction ls as [|a ls IH]; intros ps; [reflexivity|]. cbn [fold_left]. rewrite IH.
  clear IH. induction ps as [|x ps IHp]; [reflexivity|]. cbn [update_proc]. destruct (pid_eqb (pp x) (key a)); cbn [map]; [now rewrite Hf|now rewrite IHp].
Qed.

Lemma pids_distinct_map ps qs : map pp ps = map pp qs -> pids_distinct ps = pids_distinct qs.
Proof.
  revert qs. induction ps as [|x ps IH]; intros [|y qs] H; try discriminate; [reflexivity|]. cbn [map] in H. injection H as Hxy Hr.
  cbn [pids_distinct]. rewrite (IH qs Hr), Hxy. f_equal. f_equal.
  clear - Hr. revert qs Hr. induction ps as [|a ps IHa]; intros [|b qs] Hr; try discriminate; [reflexivity|].
  cbn [map] in Hr. injection Hr as Hab Hr. cbn [existsb]. now rewrite Hab, (IHa qs Hr).
Qed.

Theorem terminated_pid_gone st x : pids_distinct (n_procs st) = true -> find_proc (pp x) (n_procs (terminate st x)) = None.
Proof.
  intros Hd. cbn [terminate n_procs]. apply remove_self.
  erewrite pids_distinct_map; [exact Hd|].
  rewrite (fold_update_pids (fun mr : pidr * term => fst mr) (fun mr => add_event (MMonitorExit (pp x) (snd mr) (TAtom n_error))))
    by (intros; reflexivity).
  rewrite (fold_update_pids (fun l : pidr => l) (fun _ => add_event (MExit (pp x) (TAtom n_error)))) by (intros; reflexivity).
  reflexivity.
Qed.

(* ---------- local delivery ---------- *)
(* a message for a live process is appended to that process's record exactly once, after everything it already
   received (so a sender's messages are handled in the order it issued them); every other process is untouched; a
   message for an identifier that does not resolve is refused and nothing changes *)
Theorem send_delivered_once cfg st p msg y : crashes (MRegular msg) = false -> find_proc p (n_procs st) = Some y ->
  exists st', step cfg st (OSend p msg) = (st', UOk) /\
    find_proc p (n_procs st') = Some (add_event (MRegular msg) y) /\
    (forall q, pid_eqb q p = false -> find_proc q (n_procs st') = find_proc q (n_procs st)) /\
    n_names st' = n_names st.
Proof.
  intros Hc Hy. cbn [step]. unfold deliver. rewrite Hy, Hc. eexists. split; [reflexivity|]. cbn [set_procs n_procs n_names].
  split; [apply update_same; [intros; reflexivity|apply pid_eqb_refl|exact Hy]|]. split; [|reflexivity].
  intros q Hq. apply update_other; [intros; reflexivity|exact Hq].
Qed.

Theorem send_to_unknown_refused cfg st p msg : find_proc p (n_procs st) = None -> step cfg st (OSend p msg) = (st, UErr).
Proof. intros H. cbn [step]. unfold deliver. now rewrite H. Qed.

(* a name resolves to the process registered under it, and sending to the name is sending to that process *)
Theorem send_name_is_send cfg st name p msg : lookup_name name (n_names st) = Some p ->
  step cfg st (OSendName name msg) = step cfg st (OSend p msg).
Proof. intros H. cbn [step]. now rewrite H. Qed.

(* ---------- operations toward a process on the connected node ---------- *)
(* Node::send / link / demonitor with a remote pid: exactly the frame the connection-level operation writes (C07), or
   an error and nothing written; local processes, names and outstanding calls are untouched *)
Theorem remote_op_one_frame cfg st o :
  (n_connected st = true -> forall f, Dist.Send.send_frame 0 [] o = Some f ->
     step cfg st (ORemote o) = (with_wrote st (n_wrote st ++ [f]), UOk)) /\
  (n_connected st = false \/ Dist.Send.send_frame 0 [] o = None -> step cfg st (ORemote o) = (st, UErr)).
Proof.
  cbn [step]. unfold remote_write. split.
  - intros Hc f Hf. now rewrite Hc, Hf.
  - intros [Hc|Hf]; [now rewrite Hc|]. rewrite Hf. now destruct (n_connected st).
Qed.

(* Node::unlink toward a remote process: the unlink id is the current value of the node's reference counter, which
   advances, so successive unlinks carry different ids *)
Theorem remote_unlink_ids cfg st a b : n_connected st = true ->
  forall f, Dist.Send.send_frame 0 [] (Dist.Send.SUnlink a b (n_refctr st)) = Some f ->
  n_wrote (fst (step cfg st (ORemoteUnlink a b))) = n_wrote st ++ [f] /\
  n_refctr (fst (step cfg st (ORemoteUnlink a b))) = (n_refctr st + 1) mod 4294967296.
Proof.
  intros Hc f Hf. cbn [step]. rewrite Hc. unfold remote_write. cbn [with_refctr n_connected n_wrote]. rewrite Hc, Hf.
  cbn [fst with_wrote n_wrote n_refctr with_refctr]. split; reflexivity.
Qed.

(* ... and only those: a name held by another process still resolves to that process after the termination (also when
   the terminating process held the same name earlier, gave it up, and the other process took it) *)
Lemma lookup_filter_other p : forall ns name q, lookup_name name ns = Some q -> pid_eqb q p = false ->
  lookup_name name (filter (fun np => negb (pid_eqb (snd np) p)) ns) = Some q.
Proof.
  induction ns as [|[n r] ns IH]; intros name q H Hq; [discriminate|]. cbn [lookup_name] in H. cbn [filter snd].
  destruct (eq_bytes n name) eqn:En.
  - injection H as ->. rewrite Hq. cbn [negb lookup_name]. now rewrite En.
  - destruct (pid_eqb r p); cbn [negb]; [now apply IH|]. cbn [lookup_name]. rewrite En. now apply IH.
Qed.

Theorem others_keep_their_names st x name q :
  lookup_name name (n_names st) = Some q -> pid_eqb q (pp x) = false -> lookup_name name (n_names (terminate st x)) = Some q.
Proof. cbn [terminate n_names]. apply lookup_filter_other. Qed.

(* a name released by its holder and registered again resolves to the new holder, whatever the old holder does next *)
Theorem released_name_belongs_to_the_new_holder cfg st name q x :
  lookup_name name (n_names st) = None -> pid_eqb q (pp x) = false ->
  let st' := fst (step cfg st (ORegister name q)) in
  lookup_name name (n_names st') = Some q /\ lookup_name name (n_names (terminate st' x)) = Some q.
Proof.
  intros Hn Hq. cbn [step]. rewrite Hn. cbn [fst n_names].
  assert (H : lookup_name name (n_names st ++ [(name, q)]) = Some q).
  { clear Hq. revert Hn. generalize (n_names st). induction l as [|[n r] l IH]; cbn [lookup_name app].
    - intros _. now rewrite eq_bytes_refl.
    - destruct (eq_bytes n name); [discriminate|exact IH]. }
  split; [exact H|]. apply others_keep_their_names; [exact H|exact Hq].
Qed.
