(* Soundness of the decoder for the format relation (Codec/Spec.v): every byte string the relation assigns to a value —
   any mixture of minimal, non-minimal, modern and legacy forms, nested arbitrarily — is parsed, consumed exactly, and the
   term returned denotes that value.  By mutual induction over the relation. *)
From EDP Require Import Base.Bytes Term.Term Term.Value Gen.Tags Gen.Limits Gen.DecoderArms.
From EDP Require Import Codec.Encode Codec.Decode Codec.DecodeFacts Codec.Norm Codec.RoundTrip Codec.Spec.

Section SpecFacts.
  Variable cfg : dcfg.
  Hypothesis Harms : d_arms cfg = owned_arms.

  Ltac arm :=
    rewrite (parse_S cfg Harms);
    match goal with |- context [assoc ?t owned_arms] =>
      let v := eval vm_compute in (assoc t owned_arms) in change (assoc t owned_arms) with v end;
    cbv iota; unfold parse_body.

  (* where a value is used as a field of another form, the reader needs the term in a particular shape *)
  Definition shape (v : value) (t : term) : Prop :=
    match v with
    | VAtom a => t = TAtom a
    | VPid _ _ _ _ => exists p, t = TPid p
    | _ => True
    end.
  Ltac shp := cbn [shape]; first [exact I | reflexivity | (eexists; reflexivity)].

  Definition P (v : value) (b : bytes) : Prop :=
    (1 <= length b)%nat /\
    forall f rest, (length b < f)%nat ->
      exists t, parse cfg f (b ++ rest) = POk t rest /\ denote t = v /\ shape v t.
  Definition Q (vs : list value) (bs : bytes) : Prop :=
    (length vs <= length bs)%nat /\
    forall f k rest, (length bs < f)%nat -> (length vs < k)%nat ->
      exists ts, seq_with (parse cfg f) k (len vs) (bs ++ rest) = SOk ts rest /\ map denote ts = vs.

  Lemma lt256 n : n < 256 -> n < 256 ^ N.of_nat 1.
  Proof. intros H. exact H. Qed.

  Lemma ids_len (ids : list N) : (length ids <= length (concat (map (be 4) ids)))%nat.
  Proof. induction ids as [|i ids IH]; [apply le_n|]. cbn [map concat length]. rewrite app_length, be_length. cbn [length]. lia. Qed.

  Theorem spec_sound : (forall v b, encodes v b -> P v b) /\ (forall vs bs, encodes_seq vs bs -> Q vs bs).
  Proof.
    apply encodes_mutind.
    - (* small int *) intros n Hn. split; [cbn; lia|]. intros f rest Hf. destruct f as [|f]; [cbn in Hf; lia|].
      cbn [app]. arm. rewrite rd1. eexists. split; [reflexivity|]. split; [reflexivity|shp].
    - (* integer *) intros n Hn. split; [cbn; lia|]. intros f rest Hf. destruct f as [|f]; [cbn in Hf; lia|].
      cbn [app]. arm. rewrite rd_app by exact Hn. eexists. split; [reflexivity|]. split; [reflexivity|shp].
    - (* small big *) intros d sign Hd Hs. split; [cbn; lia|]. intros f rest Hf. destruct f as [|f]; [cbn in Hf; lia|].
      cbn [app]. arm. rewrite !rd1, takeN_app. eexists. split; [reflexivity|]. split; [reflexivity|shp].
    - (* large big *) intros d sign Hd Hs. split; [cbn; lia|]. intros f rest Hf. destruct f as [|f]; [cbn in Hf; lia|].
      cbn [app]. arm. rewrite <- app_assoc. rewrite rd_app by exact Hd. cbn [app]. rewrite rd1, takeN_app.
      eexists. split; [reflexivity|]. split; [reflexivity|shp].
    - (* float *) intros b Hb. split; [cbn; lia|]. intros f rest Hf. destruct f as [|f]; [cbn in Hf; lia|].
      cbn [app]. arm. rewrite rd_app by exact Hb. eexists. split; [reflexivity|]. split; [reflexivity|shp].
    - (* atom utf8 *) intros a Hu Hl. split; [cbn; lia|]. intros f rest Hf. destruct f as [|f]; [cbn in Hf; lia|].
      cbn [app]. arm. unfold parse_atom_bytes. rewrite <- app_assoc. rewrite rd_app by (unfold max_atom_size in Hl; cbn; lia).
      replace (max_atom_size <? len a) with false by (symmetry; apply N.ltb_ge; exact Hl).
      rewrite takeN_app, Hu. eexists. split; [reflexivity|]. split; [reflexivity|shp].
    - (* small atom utf8 *) intros a Hu Hl. split; [cbn; lia|]. intros f rest Hf. destruct f as [|f]; [cbn in Hf; lia|].
      cbn [app]. arm. unfold parse_atom_bytes. rewrite rd1.
      replace (max_atom_size <? len a) with false by (symmetry; apply N.ltb_ge; unfold max_atom_size; lia).
      rewrite takeN_app, Hu. eexists. split; [reflexivity|]. split; [reflexivity|shp].
    - (* atom latin1 *) intros a Hl. split; [cbn; lia|]. intros f rest Hf. destruct f as [|f]; [cbn in Hf; lia|].
      cbn [app]. arm. unfold parse_atom_latin1. rewrite <- app_assoc. rewrite rd_app by (unfold max_atom_size in Hl; cbn; lia).
      replace (max_atom_size <? len a) with false by (symmetry; apply N.ltb_ge; exact Hl).
      rewrite takeN_app. eexists. split; [reflexivity|]. split; [reflexivity|shp].
    - (* small atom latin1 *) intros a Hl. split; [cbn; lia|]. intros f rest Hf. destruct f as [|f]; [cbn in Hf; lia|].
      cbn [app]. arm. unfold parse_atom_latin1. rewrite rd1.
      replace (max_atom_size <? len a) with false by (symmetry; apply N.ltb_ge; unfold max_atom_size; lia).
      rewrite takeN_app. eexists. split; [reflexivity|]. split; [reflexivity|shp].
    - (* binary *) intros b Hl. split; [cbn; lia|]. intros f rest Hf. destruct f as [|f]; [cbn in Hf; lia|].
      cbn [app]. arm. rewrite <- app_assoc. rewrite rd_app by (unfold max_binary_size in Hl; cbn; lia).
      replace (max_binary_size <? len b) with false by (symmetry; apply N.ltb_ge; exact Hl).
      rewrite takeN_app. eexists. split; [reflexivity|]. split; [reflexivity|shp].
    - (* bit binary *) intros b k Hl Hk1 Hk8 Hb. split; [cbn; lia|]. intros f rest Hf. destruct f as [|f]; [cbn in Hf; lia|].
      cbn [app]. arm. rewrite <- app_assoc. rewrite rd_app by (unfold max_binary_size in Hl; cbn; lia).
      replace (max_binary_size <? len b) with false by (symmetry; apply N.ltb_ge; exact Hl).
      cbn [app]. rewrite rd1.
      replace ((k =? 0) || (8 <? k)) with false
        by (symmetry; apply orb_false_iff; split; [apply N.eqb_neq; lia|apply N.ltb_ge; lia]).
      assert (Hz : (len b =? 0) && negb (k =? 8) = false).
      { destruct (len b =? 0) eqn:E0; [|reflexivity]. apply N.eqb_eq in E0. assert (b = []) as E1 by (destruct b; [reflexivity|unfold len in E0; cbn in E0; lia]). rewrite (Hb E1). reflexivity. }
      rewrite Hz, takeN_app. eexists. split; [reflexivity|]. split; [reflexivity|shp].
    - (* nil *) split; [cbn; lia|]. intros f rest Hf. destruct f as [|f]; [cbn in Hf; lia|].
      cbn [app]. arm. eexists. split; [reflexivity|]. split; [reflexivity|shp].
    - (* string *) intros s Hl. split; [cbn; lia|]. intros f rest Hf. destruct f as [|f]; [cbn in Hf; lia|].
      cbn [app]. arm. rewrite <- app_assoc. rewrite rd_app by (cbn; lia). rewrite takeN_app.
      eexists. split; [reflexivity|]. split; [cbn [denote]; now rewrite map_map|]. destruct s; exact I.
    - (* list *) intros vs bs tl btl _ [Ql Qs] _ [Pl Pt] Hmax Hside. split; [cbn; lia|]. intros f rest Hf. destruct f as [|f]; [cbn in Hf; lia|].
      cbn [app length] in *. rewrite !app_length, be_length in Hf.
      arm. rewrite <- !app_assoc. rewrite rd_app by (unfold max_list_size in Hmax; cbn; lia).
      replace (max_list_size <? len vs) with false by (symmetry; apply N.ltb_ge; exact Hmax).
      destruct (Qs f (S (length (bs ++ btl ++ rest))) (btl ++ rest) ltac:(lia) ltac:(rewrite app_length; lia)) as (ts & Es & Ds).
      rewrite Es. destruct (Pt f rest ltac:(lia)) as (t & Et & Dt & _). rewrite Et.
      assert (Hd : denote (match t with TNil => TList ts | _ => TImproper ts t end) = fold_right VCons tl vs).
      { destruct t; cbn [denote]; rewrite Ds; try (now rewrite <- Dt). }
      assert (Hres : (match t with TNil => POk (TList ts) rest | _ => POk (TImproper ts t) rest end)
                     = POk (match t with TNil => TList ts | _ => TImproper ts t end) rest) by (destruct t; reflexivity).
      exists (match t with TNil => TList ts | _ => TImproper ts t end). split; [destruct t; reflexivity|]. split; [exact Hd|].
      destruct vs as [|v vs]; [|exact I]. destruct Hside as [Hs|Hs]; [now exfalso; apply Hs|]. subst tl. exact I.
    - (* small tuple *) intros vs bs _ [Ql Qs] Hn. split; [cbn; lia|]. intros f rest Hf. destruct f as [|f]; [cbn in Hf; lia|].
      cbn [app length] in *. arm. rewrite rd1.
      replace (max_tuple_size <? len vs) with false by (symmetry; apply N.ltb_ge; unfold max_tuple_size; lia).
      destruct (Qs f (S (length (bs ++ rest))) rest ltac:(lia) ltac:(rewrite app_length; lia)) as (ts & Es & Ds).
      rewrite Es. eexists. split; [reflexivity|]. split; [cbn [denote]; now rewrite Ds|shp].
    - (* large tuple *) intros vs bs _ [Ql Qs] Hn. split; [cbn; lia|]. intros f rest Hf. destruct f as [|f]; [cbn in Hf; lia|].
      cbn [app length] in *. rewrite app_length, be_length in Hf. arm. rewrite <- app_assoc. rewrite rd_app by (unfold max_tuple_size in Hn; cbn; lia).
      replace (max_tuple_size <? len vs) with false by (symmetry; apply N.ltb_ge; exact Hn).
      destruct (Qs f (S (length (bs ++ rest))) rest ltac:(lia) ltac:(rewrite app_length; lia)) as (ts & Es & Ds).
      rewrite Es. eexists. split; [reflexivity|]. split; [cbn [denote]; now rewrite Ds|shp].
    - (* new pid *) intros node bn id ser cr _ [Pl Pa] Hi Hs Hc. split; [cbn; lia|]. intros f rest Hf. destruct f as [|f]; [cbn in Hf; lia|].
      cbn [app length] in *. rewrite !app_length, !be_length in Hf. arm. unfold atom_of. rewrite <- !app_assoc.
      destruct (Pa f (be 4 id ++ be 4 ser ++ be 4 cr ++ rest) ltac:(lia)) as (t & Et & _ & Ht). cbn [shape] in Ht. rewrite Ht in Et. rewrite Et.
      rewrite rd_app by exact Hi. rewrite rd_app by exact Hs. rewrite rd_app by exact Hc.
      eexists. split; [reflexivity|]. split; [reflexivity|shp].
    - (* legacy pid *) intros node bn id ser cr _ [Pl Pa] Hi Hs Hc. split; [cbn; lia|]. intros f rest Hf. destruct f as [|f]; [cbn in Hf; lia|].
      cbn [app length] in *. rewrite !app_length, !be_length in Hf. arm. unfold atom_of. rewrite <- !app_assoc.
      destruct (Pa f (be 4 id ++ be 4 ser ++ [cr] ++ rest) ltac:(lia)) as (t & Et & _ & Ht). cbn [shape] in Ht. rewrite Ht in Et. rewrite Et.
      rewrite rd_app by exact Hi. rewrite rd_app by exact Hs. cbn [app]. rewrite rd1.
      eexists. split; [reflexivity|]. split; [reflexivity|shp].
    - (* v4 port *) intros node bn id cr _ [Pl Pa] Hi Hc. split; [cbn; lia|]. intros f rest Hf. destruct f as [|f]; [cbn in Hf; lia|].
      cbn [app length] in *. rewrite !app_length, !be_length in Hf. arm. unfold atom_of. rewrite <- !app_assoc.
      destruct (Pa f (be 8 id ++ be 4 cr ++ rest) ltac:(lia)) as (t & Et & _ & Ht). cbn [shape] in Ht. rewrite Ht in Et. rewrite Et.
      rewrite rd_app by exact Hi. rewrite rd_app by exact Hc.
      eexists. split; [reflexivity|]. split; [reflexivity|shp].
    - (* new port *) intros node bn id cr _ [Pl Pa] Hi Hc. split; [cbn; lia|]. intros f rest Hf. destruct f as [|f]; [cbn in Hf; lia|].
      cbn [app length] in *. rewrite !app_length, !be_length in Hf. arm. unfold atom_of. rewrite <- !app_assoc.
      destruct (Pa f (be 4 id ++ be 4 cr ++ rest) ltac:(lia)) as (t & Et & _ & Ht). cbn [shape] in Ht. rewrite Ht in Et. rewrite Et.
      rewrite rd_app by exact Hi. rewrite rd_app by exact Hc.
      eexists. split; [reflexivity|]. split; [reflexivity|shp].
    - (* legacy port *) intros node bn id cr _ [Pl Pa] Hi Hc. split; [cbn; lia|]. intros f rest Hf. destruct f as [|f]; [cbn in Hf; lia|].
      cbn [app length] in *. rewrite !app_length, !be_length in Hf. arm. unfold atom_of. rewrite <- !app_assoc.
      destruct (Pa f (be 4 id ++ [cr] ++ rest) ltac:(lia)) as (t & Et & _ & Ht). cbn [shape] in Ht. rewrite Ht in Et. rewrite Et.
      rewrite rd_app by exact Hi. cbn [app]. rewrite rd1.
      eexists. split; [reflexivity|]. split; [reflexivity|shp].
    - (* newer reference *) intros node bn cr ids _ [Pl Pa] Hc Hn Hall. split; [cbn; lia|]. intros f rest Hf. destruct f as [|f]; [cbn in Hf; lia|].
      cbn [app length] in *. rewrite !app_length, !be_length in Hf. arm. unfold atom_of. rewrite <- !app_assoc.
      rewrite rd_app by (cbn; lia).
      destruct (Pa f (be 4 cr ++ concat (map (be 4) ids) ++ rest) ltac:(lia)) as (t & Et & _ & Ht). cbn [shape] in Ht. rewrite Ht in Et. rewrite Et.
      rewrite rd_app by exact Hc.
      rewrite rd_ids_ok; [|exact Hall|pose proof (ids_len ids); rewrite app_length; lia].
      eexists. split; [reflexivity|]. split; [reflexivity|shp].
    - (* new reference *) intros node bn cr ids _ [Pl Pa] Hc Hn Hall. split; [cbn; lia|]. intros f rest Hf. destruct f as [|f]; [cbn in Hf; lia|].
      cbn [app length] in *. rewrite !app_length, !be_length in Hf. cbn [length] in Hf. arm. unfold atom_of. rewrite <- !app_assoc.
      rewrite rd_app by (cbn; lia).
      destruct (Pa f (cr :: concat (map (be 4) ids) ++ rest) ltac:(lia)) as (t & Et & _ & Ht). cbn [shape] in Ht. rewrite Ht in Et.
      cbn [app]. rewrite Et. rewrite rd1.
      rewrite rd_ids_ok; [|exact Hall|pose proof (ids_len ids); rewrite app_length; lia].
      eexists. split; [reflexivity|]. split; [reflexivity|shp].
    - (* legacy reference *) intros node bn id cr _ [Pl Pa] Hi Hc. split; [cbn; lia|]. intros f rest Hf. destruct f as [|f]; [cbn in Hf; lia|].
      cbn [app length] in *. rewrite !app_length, !be_length in Hf. arm. unfold atom_of. rewrite <- !app_assoc.
      destruct (Pa f (be 4 id ++ [cr] ++ rest) ltac:(lia)) as (t & Et & _ & Ht). cbn [shape] in Ht. rewrite Ht in Et. rewrite Et.
      rewrite rd_app by exact Hi. cbn [app]. rewrite rd1.
      eexists. split; [reflexivity|]. split; [reflexivity|shp].
    - (* export *) intros m bm fn bf a _ [Pl1 Pm] _ [Pl2 Pf] Ha. split; [cbn; lia|]. intros f rest Hf. destruct f as [|f]; [cbn in Hf; lia|].
      cbn [app length] in *. rewrite !app_length in Hf. cbn [length] in Hf. arm. unfold atom_of. rewrite <- !app_assoc.
      destruct (Pm f (bf ++ [97; a] ++ rest) ltac:(lia)) as (t & Et & _ & Ht). cbn [shape] in Ht. rewrite Ht in Et. rewrite Et.
      destruct (Pf f ([97; a] ++ rest) ltac:(lia)) as (t2 & Et2 & _ & Ht2). cbn [shape] in Ht2. rewrite Ht2 in Et2. rewrite Et2.
      destruct f as [|f']; [lia|]. cbn [app]. pose proof (p_small_int cfg Harms f' a rest Ha) as Hsi. change tag_small_integer_ext with 97 in Hsi. rewrite Hsi.
      replace ((0 <=? Z.of_N a) && (Z.of_N a <=? 255))%Z with true by (symmetry; apply andb_true_intro; split; apply Z.leb_le; lia).
      rewrite N2Z.id. eexists. split; [reflexivity|]. split; [reflexivity|shp].
    - (* new fun *) intros size ar uniq idx m bm oi boi ou bou node id ser cr bp frees bfr Hsize Har Hu Hidx Hnf _ [Pl1 Pm] Hoi Hou _ [Pl2 Pp] _ [Ql Qs].
      split; [cbn; lia|]. intros f rest Hf. destruct f as [|f]; [cbn in Hf; lia|].
      cbn [app length] in *. rewrite !app_length, !be_length in Hf. cbn [length] in Hf. rewrite !app_length, !be_length in Hf.
      arm. unfold atom_of. rewrite <- !app_assoc. rewrite rd_app by exact Hsize. cbn [app]. rewrite rd1.
      assert (Hu16 : forall X, takeN 16 (uniq ++ X) = Some (uniq, X)) by (intros X; rewrite <- Hu; apply takeN_app).
      rewrite <- !app_assoc. rewrite Hu16. rewrite rd_app by exact Hidx. rewrite rd_app by exact Hnf.
      destruct (Pm f (boi ++ bou ++ bp ++ bfr ++ rest) ltac:(lia)) as (t & Et & _ & Ht). cbn [shape] in Ht. rewrite Ht in Et. rewrite Et.
      assert (Hint : forall n b X, int_form n b -> (length b < f)%nat ->
                parse cfg f (b ++ X) = POk (TInt (Z.of_N n)) X).
      { intros n b X Hn Hb. destruct f as [|f']; [lia|]. destruct Hn as [n Hn|n Hn]; cbn [app].
        - pose proof (p_small_int cfg Harms f' n X Hn) as H. exact H.
        - pose proof (p_integer cfg Harms f' n X ltac:(lia)) as H. change tag_integer_ext with 98 in H. rewrite H.
          unfold to_i32. replace (n <? 2147483648) with true by (symmetry; apply N.ltb_lt; exact Hn). reflexivity. }
      assert (Lboi : (1 <= length boi)%nat) by (destruct Hoi; cbn; lia).
      assert (Lbou : (1 <= length bou)%nat) by (destruct Hou; cbn; lia).
      rewrite (Hint oi boi _ Hoi ltac:(lia)). replace (Z.of_N oi <? 0)%Z with false by (symmetry; apply Z.ltb_ge; lia).
      rewrite (Hint ou bou _ Hou ltac:(lia)). replace (Z.of_N ou <? 0)%Z with false by (symmetry; apply Z.ltb_ge; lia).
      destruct (Pp f (bfr ++ rest) ltac:(lia)) as (tp & Etp & Dtp & (p & ->)). rewrite Etp. cbn [denote] in Dtp.
      destruct (Qs f (S (length (bfr ++ rest))) rest ltac:(lia) ltac:(rewrite app_length; lia)) as (ts & Es & Ds). rewrite Es.
      eexists. split; [reflexivity|]. split; [|shp].
      cbn [denote]. rewrite Dtp, Ds, !N2Z.id.
      assert (Hb : forall n b, int_form n b -> n mod 4294967296 = n) by (intros n b [n' H'|n' H']; apply N.mod_small; lia).
      now rewrite (Hb _ _ Hoi), (Hb _ _ Hou).
    - (* empty sequence *) split; [apply le_n|]. intros f k rest _ Hk. destruct k as [|k]; [cbn in Hk; lia|]. exists []. split; reflexivity.
    - (* sequence *) intros v b vs bs _ [Pl Pv] _ [Ql Qs]. split; [rewrite app_length; cbn [length]; lia|].
      intros f k rest Hf Hk. rewrite app_length in Hf. cbn [length] in Hk. destruct k as [|k]; [lia|].
      cbn [seq_with]. assert (E : len (v :: vs) =? 0 = false) by (apply N.eqb_neq; unfold len; cbn [length]; lia). rewrite E.
      rewrite <- app_assoc. destruct (Pv f (bs ++ rest) ltac:(lia)) as (t & Et & Dt & _). rewrite Et.
      replace (N.pred (len (v :: vs))) with (len vs) by (unfold len; cbn [length]; lia).
      destruct (Qs f k rest ltac:(lia) ltac:(lia)) as (ts & Es & Ds). rewrite Es.
      exists (t :: ts). split; [reflexivity|]. cbn [map]. now rewrite Dt, Ds.
  Qed.


  (* the public entry point: version byte, one term, nothing after it *)
  Corollary decode_sound v b : encodes v b -> exists t, decode cfg (tag_version :: b) = DOk t /\ denote t = v.
  Proof.
    intros H. destruct (proj1 spec_sound v b H) as [_ Hp].
    destruct (Hp (length b + 2 + d_extra_fuel cfg)%nat [] ltac:(lia)) as (t & Et & Dt & _).
    exists t. split; [|exact Dt]. unfold decode. rewrite N.eqb_refl. rewrite app_nil_r in Et. now rewrite Et.
  Qed.

  (* ... and anything after the term is reported, never ignored *)
  Corollary decode_trailing v b x r : encodes v b -> decode cfg (tag_version :: b ++ x :: r) = DTrailing (len (x :: r)).
  Proof.
    intros H. destruct (proj1 spec_sound v b H) as [_ Hp].
    destruct (Hp (length (b ++ x :: r) + 2 + d_extra_fuel cfg)%nat (x :: r) ltac:(rewrite app_length; lia)) as (t & Et & _).
    unfold decode. rewrite N.eqb_refl. now rewrite Et.
  Qed.

  (* COMPRESSED (tag 80): UncompressedSize, then a zlib stream that inflates to an encoding of the value (followed,
     possibly, by bytes the reader ignores).  zlib is the oracle d_inflate: what the stream inflates to and how much of
     its input it consumed.  The reader returns the term of the inflated encoding and continues after the stream. *)
  Theorem compressed_sound v payload extra z rest usz f :
    encodes v payload -> d_inflate cfg (z ++ rest) = Some (payload ++ extra, len z) ->
    len (payload ++ extra) <= usz -> usz <= max_binary_size -> (length payload + 1 < f)%nat ->
    exists t, parse cfg f (80 :: be 4 usz ++ z ++ rest) = POk t rest /\ denote t = v.
  Proof.
    intros He Hz Hu Hm Hf. destruct f as [|f]; [lia|].
    destruct (proj1 spec_sound v payload He) as [_ Hp]. destruct (Hp f extra ltac:(lia)) as (t & Et & Dt & _).
    exists t. split; [|exact Dt]. arm.
    rewrite rd_app by (unfold max_binary_size in Hm; cbn; lia).
    replace (max_binary_size <? usz) with false by (symmetry; apply N.ltb_ge; exact Hm).
    rewrite Hz. replace (usz <? len (payload ++ extra)) with false by (symmetry; apply N.ltb_ge; exact Hu).
    rewrite Et, takeN_app. reflexivity.
  Qed.

  (* whole-message form: 131, 80, size, stream *)
  Corollary decode_compressed v payload extra z usz :
    encodes v payload -> d_inflate cfg z = Some (payload ++ extra, len z) ->
    len (payload ++ extra) <= usz -> usz <= max_binary_size -> (length payload <= d_extra_fuel cfg)%nat ->
    exists t, decode cfg (tag_version :: 80 :: be 4 usz ++ z) = DOk t /\ denote t = v.
  Proof.
    intros He Hz Hu Hm Hx.
    destruct (compressed_sound v payload extra z [] usz (length (80%N :: be 4 usz ++ z) + 2 + d_extra_fuel cfg)%nat He
                ltac:(rewrite app_nil_r; exact Hz) Hu Hm ltac:(cbn [length]; lia)) as (t & Et & Dt).
    exists t. split; [|exact Dt]. unfold decode. rewrite N.eqb_refl. rewrite !app_nil_r in Et. now rewrite Et.
  Qed.

  (* FLOAT_EXT (tag 99), the legacy textual float: 31 bytes of text, NUL padded.  What number a text denotes is the
     oracle d_float_text (Rust's str::parse::<f64>); the reader takes exactly the 31 bytes, whatever follows. *)
  Theorem float_text_sound txt b rest f :
    len txt = 31 -> utf8_valid txt = true -> d_float_text cfg (trim_nul txt) = Some b ->
    parse cfg (S f) (99 :: txt ++ rest) = POk (TFloat b) rest /\ denote (TFloat b) = VFloat b.
  Proof.
    intros Hl Hu Ht. split; [|reflexivity]. arm. rewrite <- Hl, takeN_app, Hu, Ht. reflexivity.
  Qed.
End SpecFacts.
