(* Connected only after cookie proof: invariant over arbitrary API call sequences. *)
From EDP Require Import Base.Bytes Term.Term Dist.Handshake.

Section Facts.
  Variable md5 : bytes -> bytes.
  Variable c : hcfg.

  (* The ghost history of a run: the challenge issued by the last successful handle_challenge since the last
     disconnect, if any, and whether a valid proof for it has been presented since. *)
  Record ghost := { issued : option N; proven : bool }.
  Definition ghost0 : ghost := {| issued := None; proven := false |}.

  Definition valid_ack (d : bytes) (ch : N) : Prop :=
    exists dg, ack_decode d = Some dg /\ dg = digest md5 ch (h_cookie c).

  Definition gstep (g : ghost) (s : hs) (o : hop) : ghost :=
    match o with
    | HandleChallenge d gen => match challenge_decode d with Some _ => {| issued := Some gen; proven := false |} | None => g end
    | HandleChallengeAck d =>
        match ack_decode d, issued g with
        | Some dg, Some ch => if bytes_eqb dg (digest md5 ch (h_cookie c)) then {| issued := issued g; proven := true |} else g
        | _, _ => g
        end
    | Disconnect => ghost0
    | _ => g
    end.

  (* invariant: the machine's stored challenge is the ghost's, and Connected implies proven *)
  Definition Inv (g : ghost) (s : hs) : Prop :=
    our s = issued g /\ (st s = Connected -> proven g = true).

  Lemma inv_init : Inv ghost0 hs_init.
  Proof. split; [reflexivity|discriminate]. Qed.

  Lemma inv_step g s o : Inv g s -> Inv (gstep g s o) (fst (hstep md5 c s o)).
  Proof.
    intros [Ho Hc]. destruct o; cbn [hstep gstep].
    - destruct (st s) eqn:E; cbn [fst]; split; cbn [our st set_st]; try assumption; try discriminate; try (rewrite E; exact Hc).
    - destruct (send_name_old c); cbn [fst]; split; cbn [our st set_st]; try assumption; discriminate.
    - destruct (status_ok d) as [[|]|]; cbn [fst]; split; assumption.
    - cbn [fst]. split; assumption.
    - destruct (challenge_decode d) as [[fl ch]|]; cbn [fst]; split; cbn [our st set_st issued proven]; try assumption; try reflexivity; discriminate.
    - destruct (our s) as [oc|] eqn:Eo; destruct (their s) as [tc|]; cbn [fst]; split; cbn [our st set_st]; try assumption; try discriminate; try (rewrite Eo; exact Ho).
    - destruct (ack_decode d) as [dg|]; [|cbn [fst]; split; assumption].
      destruct (our s) as [oc|] eqn:Eo.
      + rewrite <- Ho. destruct (bytes_eqb dg (digest md5 oc (h_cookie c))) eqn:Eb; cbn [fst].
        * split; cbn [our st set_st issued proven]; [exact Eo|reflexivity].
        * split; [rewrite Eo; exact Ho|exact Hc].
      + rewrite <- Ho. cbn [fst]. split; [rewrite Eo; exact Ho|exact Hc].
    - split; [reflexivity|discriminate].
  Qed.

  Fixpoint grun (g : ghost) (s : hs) (ops : list hop) : ghost :=
    match ops with
    | [] => g
    | o :: r => grun (gstep g s o) (fst (hstep md5 c s o)) r
    end.

  Lemma hrun_fst s ops : forall g, Inv g s -> Inv (grun g s ops) (fst (hrun md5 c s ops)).
  Proof.
    revert s. induction ops as [|o r IH]; intros s g H; [exact H|].
    cbn [hrun grun]. destruct (hstep md5 c s o) as [s1 out] eqn:E1.
    assert (H1 : Inv (gstep g s o) s1) by (pose proof (inv_step g s o H) as X; rewrite E1 in X; exact X).
    specialize (IH s1 (gstep g s o) H1). replace (fst (hstep md5 c s o)) with s1 by (now rewrite E1).
    destruct (hrun md5 c s1 r) as [s2 outs]. exact IH.
  Qed.

  (* the ghost says `proven` only when, after the last successful handle_challenge since the last disconnect,
     an ack carrying the digest of exactly that challenge was presented *)
  Lemma grun_proven ops : forall g s, proven (grun g s ops) = true ->
    proven g = true \/ exists pre d post ch, ops = pre ++ HandleChallengeAck d :: post /\ valid_ack d ch.
  Proof.
    induction ops as [|o r IH]; intros g s H; [left; exact H|]. cbn [grun] in H.
    destruct (IH _ _ H) as [Hp|(pre & d & post & ch & -> & Hv)].
    - destruct o; cbn [gstep] in Hp; try (left; exact Hp).
      + destruct (challenge_decode d); [discriminate|left; exact Hp].
      + destruct (ack_decode d) as [dg|] eqn:Ea; [|left; exact Hp].
        destruct (issued g) as [ch|] eqn:Ei; [|left; exact Hp].
        destruct (bytes_eqb dg (digest md5 ch (h_cookie c))) eqn:Eb; [|left; exact Hp].
        right. exists [], d, r, ch. split; [reflexivity|]. exists dg. split; [exact Ea|].
        unfold bytes_eqb in Eb. destruct (list_eq_dec N.eq_dec dg (digest md5 ch (h_cookie c))); [assumption|discriminate].
      + discriminate.
    - right. exists (o :: pre), d, post, ch. split; [reflexivity|exact Hv].
  Qed.

  (* flags: the negotiated set is exactly the bitwise intersection *)
  Lemma nego_intersection s d gen fl ch : challenge_decode d = Some (fl, ch) ->
    nego (fst (hstep md5 c s (HandleChallenge d gen))) = Some (N.land fl (h_flags c)).
  Proof. intros H. cbn [hstep]. now rewrite H. Qed.
End Facts.
