"""C20 — Elixir wrappers, range arithmetic, proplist/map helpers and builders. Domain `elixir`."""
import etf

ID = "C20"
GEN_FILES = ["Tags.v", "Limits.v", "Ranks.v"]
RULE = ("ranges: bounds and steps from a pool of 64-bit extremes, zero, +-1, primes, values around 2^31/2^32/2^62/2^63 and random i64, "
        "probes at both bounds, one step inside/outside, residues, extremes; wrappers: every wrapper kind with each field at its type's "
        "minimum, maximum, zero, calendar-invalid values and random values, strings empty/ASCII/multi-byte, embedded terms from a "
        "structured generator (atoms, 64-bit and big integers, binaries, strings, lists, tuples, maps with atom keys, pids); every wrapper "
        "goes to a term, back, and through encode/decode and back; from_term is also run on the wrapper's term with one field replaced "
        "(out of range by one, far out of range, wrong type, big-integer form of the same value), removed, or the struct tag changed; "
        "proplists with tuples, bare atoms, junk elements, duplicate and non-atom keys, and maps, converted both ways; builders with "
        "duplicate keys. distinct = distinct case line; non-trivial = range with >= 2 members, or wrapper with a non-default field")
ASSUMPTIONS = ["the spec of each wrapper's term shape is the Elixir struct definition (Range, Date, Time, NaiveDateTime, DateTime, MapSet v2, "
               "the exception structs); `microsecond` absent or not a 2-tuple reads as {0, 0} (documented leniency of the library)",
               "a function called nil and an args field that is the atom nil cannot be told from an absent field in the term; the oracle "
               "accepts the absent reading for them",
               "duplicate proplist keys: the last occurrence wins in proplist_to_map (pinned by the existing test "
               "test_proplist_to_map_duplicate_keys_last_wins; same as maps:from_list/1)",
               "invalid UTF-8 in a binary read as a string: the lossy replacement text is not modelled (both sides print LOSSY)"]

I64 = (-2**63, 2**63 - 1)
U64MAX = 2**64 - 1
A = lambda s: ("a", s.encode() if isinstance(s, str) else s)  # noqa
KINDS = ["range", "date", "time", "naive", "datetime", "mapset", "msgerr:0", "msgerr:1", "msgerr:2", "keyerr", "termerr:0", "termerr:1",
         "termerr:2", "termerr:3", "termerr:4", "undef", "fclause", "cond"]
MSG_MOD = ["Elixir.ArgumentError", "Elixir.RuntimeError", "Elixir.ArithmeticError"]
TERM_MOD = ["Elixir.MatchError", "Elixir.BadMapError", "Elixir.BadFunctionError", "Elixir.CaseClauseError", "Elixir.WithClauseError"]


# ------------------------------------------------------------------------------------------
# wrapper values as Python tuples: (kind, fields...) ; text form shared with harness and model runner

def hx(b):
    return etf.hx(b)


def show_opt_s(s):
    return "-" if s is None else hx(s)


def show_w(w):
    k = w[0]
    if k in ("range", "date", "time", "naive"):
        return " ".join([k] + [str(x) for x in w[1:]])
    if k == "datetime":
        return " ".join([k] + [str(x) for x in w[1:9]] + [hx(w[9]), hx(w[10]), str(w[11]), str(w[12])])
    if k == "mapset":
        return " ".join(["mapset", str(len(w[1]))] + [etf.show(e) for e in w[1]])
    if k == "msgerr":
        return "msgerr %d %s" % (w[1], hx(w[2]))
    if k == "keyerr":
        return "keyerr %s %s %s" % (etf.show(w[1]), etf.show(w[2]), show_opt_s(w[3]))
    if k == "termerr":
        return "termerr %d %s" % (w[1], etf.show(w[2]))
    if k == "undef":
        return "undef %s %s %d %s" % (hx(w[1]), hx(w[2]), w[3], show_opt_s(w[4]))
    if k == "fclause":
        return "fclause %s %s %s %s" % (show_opt_s(w[1]), show_opt_s(w[2]), "-" if w[3] is None else str(w[3]),
                                        "-" if w[4] is None else "T " + etf.show(w[4]))
    return "cond"


def read_s(t):
    s = t.next()
    return "LOSSY" if s == "LOSSY" else etf.unhex(s)


def read_opt_s(t):
    s = t.next()
    return None if s == "-" else ("LOSSY" if s == "LOSSY" else etf.unhex(s))


def read_w(t):
    k = t.next()
    if k == "None":
        return None
    n = {"range": 3, "date": 3, "time": 5, "naive": 8}.get(k)
    if n:
        return (k,) + tuple(int(t.next()) for _ in range(n))
    if k == "datetime":
        f = [int(t.next()) for _ in range(8)]
        tz, ab = read_s(t), read_s(t)
        return (k,) + tuple(f) + (tz, ab, int(t.next()), int(t.next()))
    if k == "mapset":
        return (k, [etf.read_term(t) for _ in range(int(t.next()))])
    if k == "msgerr":
        return (k, int(t.next()), read_s(t))
    if k == "keyerr":
        return (k, etf.read_term(t), etf.read_term(t), read_opt_s(t))
    if k == "termerr":
        return (k, int(t.next()), etf.read_term(t))
    if k == "undef":
        return (k, read_s(t), read_s(t), int(t.next()), read_opt_s(t))
    if k == "fclause":
        m, f = read_opt_s(t), read_opt_s(t)
        a = t.next()
        a = None if a == "-" else int(a)
        args = None if t.next() == "-" else etf.read_term(t)
        return (k, m, f, a, args)
    if k == "cond":
        return (k,)
    raise ValueError(k)


def kind_text(w):
    k = w[0]
    return "%s:%d" % (k, min(w[1], 2 if k == "msgerr" else 4)) if k in ("msgerr", "termerr") else k


# ------------------------------------------------------------------------------------------
# spec side: the Elixir struct a wrapper stands for (term AST), and reading one back

def mkmap(pairs):
    return ("m", [(A(k), v) for k, v in pairs])


def exc(module, pairs):
    return mkmap([("__struct__", A(module)), ("__exception__", A("true"))] + pairs)


def opt_bin(s):
    return A("nil") if s is None else ("b", s)


def with_prefix(m):
    return m if m.startswith(b"Elixir.") else b"Elixir." + m


def spec_term(w):
    k = w[0]
    I = lambda n: ("i", n)  # noqa
    cal = ("calendar", A("Elixir.Calendar.ISO"))
    if k == "range":
        return mkmap([("__struct__", A("Elixir.Range")), ("first", I(w[1])), ("last", I(w[2])), ("step", I(w[3]))])
    if k == "date":
        return mkmap([("__struct__", A("Elixir.Date")), ("year", I(w[1])), ("month", I(w[2])), ("day", I(w[3])), cal])
    if k == "time":
        return mkmap([("__struct__", A("Elixir.Time")), ("hour", I(w[1])), ("minute", I(w[2])), ("second", I(w[3])),
                      ("microsecond", ("t", [I(w[4]), I(w[5])])), cal])
    if k in ("naive", "datetime"):
        p = [("__struct__", A("Elixir.NaiveDateTime" if k == "naive" else "Elixir.DateTime")), ("year", I(w[1])), ("month", I(w[2])),
             ("day", I(w[3])), ("hour", I(w[4])), ("minute", I(w[5])), ("second", I(w[6])), ("microsecond", ("t", [I(w[7]), I(w[8])])), cal]
        if k == "datetime":
            p += [("time_zone", ("b", w[9])), ("zone_abbr", ("b", w[10])), ("utc_offset", I(w[11])), ("std_offset", I(w[12]))]
        return mkmap(p)
    if k == "mapset":
        els = dedup(w[1])
        return mkmap([("__struct__", A("Elixir.MapSet")), ("map", ("t", [A("set"), I(len(els)), ("m", [(e, ("l", [])) for e in els])]))])
    if k == "msgerr":
        return exc(MSG_MOD[min(w[1], 2)], [("message", ("b", w[2]))])
    if k == "keyerr":
        return exc("Elixir.KeyError", [("key", w[1]), ("term", w[2]), ("message", opt_bin(w[3]))])
    if k == "termerr":
        return exc(TERM_MOD[min(w[1], 4)], [("term", w[2])])
    if k == "undef":
        return exc("Elixir.UndefinedFunctionError", [("module", A(with_prefix(w[1]))), ("function", A(w[2])), ("arity", I(w[3])),
                                                     ("reason", opt_bin(w[4]))])
    if k == "fclause":
        return exc("Elixir.FunctionClauseError", [("module", A("nil") if w[1] is None else A(with_prefix(w[1]))),
                                                  ("function", A("nil") if w[2] is None else A(w[2])),
                                                  ("arity", A("nil") if w[3] is None else I(w[3])),
                                                  ("args", A("nil") if w[4] is None else w[4])])
    return exc("Elixir.CondClauseError", [])


def dedup(els):
    out = []
    for e in els:
        if all(etf.denote(e) != etf.denote(x) for x in out):
            out.append(e)
    return out


def mfield(m, name):
    for k, v in m:
        if k == ("a", name.encode()):
            return v
    return None


def as_int(v, lo, hi):
    """the integer a field holds, however it is encoded, if it fits the field's type"""
    if v is None:
        return None
    if v[0] == "i":
        n = v[1]
    elif v[0] == "g":
        n = etf.big_value(v[1], v[2])
    else:
        return None
    return n if lo <= n <= hi else None


def valid_utf8(b):
    try:
        b.decode("utf-8")
        return True
    except UnicodeDecodeError:
        return False


def as_string(v):
    if v is None:
        return None
    if v[0] in ("b", "s"):
        return v[1] if valid_utf8(v[1]) else "LOSSY"
    if v[0] == "l":
        if all(x[0] == "i" and 0 <= x[1] <= 255 for x in v[1]):
            b = bytes(x[1] for x in v[1])
            return b if valid_utf8(b) else "LOSSY"
    return None


def strip_prefix(b):
    return b[7:] if b.startswith(b"Elixir.") else b


U8, U32, I32 = (0, 255), (0, 2**32 - 1), (-2**31, 2**31 - 1)


def spec_from(kind, t):
    """what reading `t` as `kind` must give: a wrapper tuple, or None when the term is not such a struct"""
    if t[0] != "m":
        return None
    m = t[1]
    k = kind.split(":")[0]
    sub = int(kind.split(":")[1]) if ":" in kind else 0
    module = {"range": "Elixir.Range", "date": "Elixir.Date", "time": "Elixir.Time", "naive": "Elixir.NaiveDateTime",
              "datetime": "Elixir.DateTime", "mapset": "Elixir.MapSet", "msgerr": MSG_MOD[min(sub, 2)], "keyerr": "Elixir.KeyError",
              "termerr": TERM_MOD[min(sub, 4)], "undef": "Elixir.UndefinedFunctionError", "fclause": "Elixir.FunctionClauseError",
              "cond": "Elixir.CondClauseError"}[k]
    if mfield(m, "__struct__") != A(module):
        return None

    def ints(spec):
        out = []
        for name, (lo, hi) in spec:
            n = as_int(mfield(m, name), lo, hi)
            if n is None:
                return None
            out.append(n)
        return out

    def micro():
        us = mfield(m, "microsecond")
        if us is None or us[0] != "t" or len(us[1]) != 2:
            return [0, 0]
        a, b = as_int(us[1][0], *U32), as_int(us[1][1], *U8)
        return None if a is None or b is None else [a, b]
    DATE = [("year", I32), ("month", U8), ("day", U8)]
    HMS = [("hour", U8), ("minute", U8), ("second", U8)]
    if k == "range":
        f = ints([("first", I64), ("last", I64), ("step", I64)])
        return f and ("range",) + tuple(f)
    if k == "date":
        f = ints(DATE)
        return f and ("date",) + tuple(f)
    if k == "time":
        f, u = ints(HMS), micro()
        return None if f is None or u is None else ("time",) + tuple(f + u)
    if k in ("naive", "datetime"):
        f, g, u = ints(DATE), ints(HMS), micro()
        if f is None or g is None or u is None:
            return None
        if k == "naive":
            return ("naive",) + tuple(f + g + u)
        tz, ab = as_string(mfield(m, "time_zone")), as_string(mfield(m, "zone_abbr"))
        off = ints([("utc_offset", I32), ("std_offset", I32)])
        if tz is None or ab is None or off is None:
            return None
        return ("datetime",) + tuple(f + g + u) + (tz, ab) + tuple(off)
    if k == "mapset":
        mv = mfield(m, "map")
        if mv is None or mv[0] != "t" or len(mv[1]) != 3 or mv[1][0] != A("set") or mv[1][2][0] != "m":
            return None
        return ("mapset", [kk for kk, _ in mv[1][2][1]])
    if k == "msgerr":
        s = as_string(mfield(m, "message"))
        return None if s is None else ("msgerr", sub, s)
    if k == "keyerr":
        key, tm = mfield(m, "key"), mfield(m, "term")
        if key is None or tm is None:
            return None
        return ("keyerr", key, tm, as_string(mfield(m, "message")))
    if k == "termerr":
        tm = mfield(m, "term")
        return None if tm is None else ("termerr", sub, tm)
    if k == "undef":
        mo, fn = mfield(m, "module"), mfield(m, "function")
        ar = as_int(mfield(m, "arity"), *U8)
        if mo is None or fn is None or mo[0] != "a" or fn[0] != "a" or ar is None:
            return None
        return ("undef", strip_prefix(mo[1]), fn[1], ar, as_string(mfield(m, "reason")))
    if k == "fclause":
        mo, fn, args = mfield(m, "module"), mfield(m, "function"), mfield(m, "args")
        mo = strip_prefix(mo[1]) if mo is not None and mo[0] == "a" and mo != A("nil") else None
        fn = fn[1] if fn is not None and fn[0] == "a" and fn != A("nil") else None
        return ("fclause", mo, fn, as_int(mfield(m, "arity"), *U8), None if args == A("nil") else args)
    return ("cond",)


def canon(t):
    """exact structure, map entries in a canonical order (the input text lists them in any order)"""
    k = t[0]
    if k == "m":
        return ("m", sorted(((canon(x), canon(y)) for x, y in t[1]), key=lambda kv: etf.show(kv[0])))
    if k in ("l", "t"):
        return (k, [canon(x) for x in t[1]])
    if k == "L":
        return (k, [canon(x) for x in t[1]], canon(t[2]))
    if k == "u":
        return t[:9] + ([canon(x) for x in t[9]],)
    return t


def same_w(a, b, wire):
    """equality of wrapper values; embedded terms by value when they went through the wire"""
    if a is None or b is None:
        return a is b
    if a[0] != b[0] or len(a) != len(b):
        return False
    eq_t = (lambda x, y: etf.denote(x) == etf.denote(y)) if wire else (lambda x, y: canon(x) == canon(y))
    if a[0] == "mapset":
        da, db = [etf.denote(x) for x in a[1]], [etf.denote(x) for x in b[1]]
        return len(da) == len(db) and all(x in db for x in da) and all(x in da for x in db)
    for x, y in zip(a[1:], b[1:]):
        if isinstance(x, tuple) and isinstance(y, tuple):
            if not eq_t(x, y):
                return False
        elif x != y:
            return False
    return True


# ------------------------------------------------------------------------------------------
# spec side: ranges

def range_members(f, l, s):
    if s > 0:
        return range(f, l + 1, s)
    if s < 0:
        return range(f, l - 1, s)
    return range(0)


def rcount(f, l, s):
    if s > 0 and f <= l:
        return (l - f) // s + 1
    if s < 0 and f >= l:
        return (f - l) // (-s) + 1
    return 0


def range_oracle(case, impl):
    p = case.split()
    f, l, s, k = int(p[1]), int(p[2]), int(p[3]), int(p[4])
    probes = [int(x) for x in p[5:]]
    if impl.startswith(("PANIC", "CRASH", "TIMEOUT")):
        return ("violation", "range %d..%d//%d: arithmetic failed: %s" % (f, l, s, impl[:40]))
    mem = range_members(f, l, s)
    count = rcount(f, l, s)
    d = dict(x.split("=", 1) for x in impl.split())
    if int(d["len"]) != min(count, U64MAX):
        return ("violation", "range %d..%d//%d has %d members, len() says %s" % (f, l, s, count, d["len"]))
    if d["empty"] != ("1" if count == 0 else "0"):
        return ("violation", "is_empty disagrees with the member count %d" % count)
    for pr, c in zip(probes, d.get("contains", "")):
        if (pr in mem) != (c == "1"):
            return ("violation", "contains(%d) = %s for range %d..%d//%d" % (pr, c, f, l, s))
    steps = d["iter"].split(",") if d.get("iter") else []
    for i, st in enumerate(steps):
        h, v = st.split(":")
        want = str(f + i * s) if i < count else "-"
        if v != want:
            return ("violation", "iteration step %d of %d..%d//%d gives %s, member is %s" % (i, f, l, s, v, want))
        if int(h) != min(max(count - i, 0), U64MAX):
            return ("violation", "size_hint before step %d is %s with %d members left" % (i, h, max(count - i, 0)))
    return None


# ------------------------------------------------------------------------------------------
# spec side: proplists

TRUE = A("true")


def pl_entries(els):
    out = []
    for e in els:
        if e[0] == "t" and len(e[1]) == 2:
            out.append((e[1][0], e[1][1]))
        elif e[0] == "a":
            out.append((e, TRUE))
    return out


def as_dict(pairs):
    """last occurrence wins; keys by value"""
    d = {}
    for k, v in pairs:
        d[etf.denote(k)] = etf.denote(v)
    return d


def pl_oracle(case, impl):
    if impl.startswith(("PANIC", "CRASH", "TIMEOUT")):
        return ("violation", "did not return: " + impl[:40])
    p = case.split(" ", 2)
    op, t = p[1], etf.parse_term(p[2])
    is_list = t[0] in ("l", "n")
    els = t[1] if t[0] == "l" else []
    if op == "isprop":
        want = is_list and all((e[0] == "t" and len(e[1]) == 2 and e[1][0][0] in ("a", "b", "s")) or e[0] == "a" for e in els)
        return None if impl == ("1" if want else "0") else ("violation", "is_proplist gives " + impl)
    if op == "rec":
        return None
    if impl == "ERR":
        ok_in = {"norm": is_list, "tomap": is_list or t[0] == "m", "toplist": is_list or t[0] == "m", "there": is_list or t[0] == "m",
                 "back": is_list or t[0] == "m"}[op]
        return ("violation", "%s refuses a %s" % (op, t[0])) if ok_in else None
    r = etf.parse_term(impl)
    if op == "norm":
        if not is_list:
            return ("violation", "normalize_proplist accepts a term that is not a list")
        want = [("t", [k, v]) for k, v in pl_entries(els)]
        return None if canon(r) == canon(("l", want)) else ("violation", "normalize_proplist changes or loses an element")
    if op in ("tomap", "back") and t[0] != "m" or op == "there" and t[0] != "m":
        src = pl_entries(els) if is_list else None
    if op == "tomap":
        if t[0] == "m":
            return None if etf.denote(r) == etf.denote(t) else ("violation", "proplist_to_map changes a map")
        if not is_list:
            return ("violation", "proplist_to_map accepts a " + t[0])
        if r[0] != "m" or as_dict(r[1]) != as_dict(pl_entries(els)) or len(r[1]) != len(as_dict(pl_entries(els))):
            return ("violation", "proplist_to_map loses or alters an entry")
        return None
    if op == "toplist":
        if is_list:
            return None if etf.denote(r) == etf.denote(t) else ("violation", "map_to_proplist changes a list")
        if t[0] != "m":
            return ("violation", "map_to_proplist accepts a " + t[0])
        got = pl_entries(r[1]) if r[0] == "l" else None
        if got is None or len(got) != len(r[1]) or as_dict(got) != as_dict(t[1]) or len(got) != len(as_dict(t[1])):
            return ("violation", "map_to_proplist loses or alters an entry")
        return None
    if op == "there":      # proplist -> map -> proplist
        if t[0] == "m":
            src = t[1]
        elif is_list:
            src = pl_entries(els)
        else:
            return ("violation", "conversion accepts a " + t[0])
        got = pl_entries(r[1]) if r[0] == "l" else None
        if got is None or len(got) != len(r[1]) or as_dict(got) != as_dict(src) or len(got) != len(as_dict(src)):
            return ("violation", "proplist -> map -> proplist loses or alters an entry")
        return None
    if op == "back":       # map -> proplist -> map
        if t[0] == "m":
            return None if etf.denote(r) == etf.denote(t) else ("violation", "map -> proplist -> map does not give the map back")
        if not is_list:
            return ("violation", "conversion accepts a " + t[0])
        if r[0] != "m" or as_dict(r[1]) != as_dict(pl_entries(els)):
            return ("violation", "proplist -> map loses or alters an entry")
        return None
    return None


def read_entries(t):
    n = int(t.next())
    return [(etf.unhex(t.next()), etf.read_term(t)) for _ in range(n)]


def builder_oracle(case, impl):
    if impl.startswith(("PANIC", "CRASH", "TIMEOUT")):
        return ("violation", "did not return: " + impl[:40])
    t = etf.Toks(case)
    op = t.next()
    name = etf.unhex(t.next()) if op == "kwget" else None
    ents = read_entries(t)
    if op == "kw":
        want = ("l", [("t", [("a", k), v]) for k, v in ents])
        return None if canon(etf.parse_term(impl)) == canon(want) else ("violation", "keyword list does not hold the entries put, in order")
    if op == "akm":
        r = etf.parse_term(impl)
        want = as_dict([(("a", k), v) for k, v in ents])
        return None if r[0] == "m" and as_dict(r[1]) == want and len(r[1]) == len(want) else ("violation", "atom-key map does not hold the entries put")
    first = next((v for k, v in ents if k == name), None)
    if first is None:
        return None if impl == "None" else ("violation", "lookup of an absent key returns a value")
    return None if impl != "None" and canon(etf.parse_term(impl)) == canon(first) else ("violation", "lookup does not return the first value put under the key")


# ------------------------------------------------------------------------------------------
# oracle dispatch

def known_prefix(w):
    return w[0] in ("undef", "fclause") and w[1] is not None and w[1].startswith(b"Elixir.")


def ambiguous_nil(w):
    """fclause fields that read back as absent by construction of the term"""
    if w[0] != "fclause":
        return w
    return ("fclause", w[1], None if w[2] == b"nil" else w[2], w[3], None if w[4] == A("nil") else w[4])


def oracle(case, impl):
    op = case.split(" ", 1)[0]
    if op == "range":
        return range_oracle(case, impl)
    if op == "pl":
        return pl_oracle(case, impl)
    if op in ("kw", "akm", "kwget"):
        return builder_oracle(case, impl)
    if impl.startswith(("PANIC", "CRASH", "TIMEOUT")):
        return ("violation", "did not return: " + impl[:40])
    if " ;; NOTE " in impl:
        return ("violation", "the public constructors of a wrapper disagree on the same members: " + impl.split(" ;; NOTE ", 1)[1][:100])
    t = etf.Toks(case)
    t.next()
    if op == "to":
        w = read_w(t)
        if etf.denote(etf.parse_term(impl)) != etf.denote(spec_term(w)):
            return ("violation", "%s converts to a term that is not the Elixir struct it stands for" % w[0])
        return None
    if op == "from":
        kind = t.next()
        term = etf.read_term(t)
        want = spec_from(kind, term)
        got = read_w(etf.Toks(impl))
        if want is not None and "LOSSY" in want:
            return None
        if not same_w(got, want, wire=False):
            if got is not None and want is None:
                return ("violation", "%s::from_term fabricates a value from a term of the wrong shape or with out-of-range fields: %s" % (kind, impl[:80]))
            return ("violation", "%s::from_term gives %s, the term holds %s" % (kind, impl[:60], "nothing readable" if want is None else show_w(want)[:60]))
        return None
    if op == "rt":
        w = read_w(t)
        mem_s, wire_s = impl[4:].split(" wire=")
        want = ambiguous_nil(w)
        if w[0] == "mapset":
            want = ("mapset", dedup(w[1]))
        for label, s, wire in (("in memory", mem_s, False), ("after encode/decode", wire_s, True)):
            if s in ("ENCERR", "DECERR"):
                return ("violation", "%s: the wrapper's term does not survive the codec (%s)" % (w[0], s))
            got = read_w(etf.Toks(s))
            if not same_w(got, want, wire=wire):
                if known_prefix(w) and got is not None and same_w(got, (want[0], want[1][7:]) + want[2:], wire=wire):
                    return ("known", "C20-exception-module-prefix")
                return ("violation", "%s does not convert back to an equal value %s: got %s" % (w[0], label, s[:80]))
        return None
    return None


def oracle_for(_d):
    return oracle


# ------------------------------------------------------------------------------------------
# generators

EXT = [I64[0], I64[0] + 1, -2**62, -2**32, -2**31 - 1, -2**31, -257, -256, -7, -3, -2, -1, 0, 1, 2, 3, 7, 255, 256, 2**31 - 1, 2**31,
       2**32 - 1, 2**32, 2**53, 2**62, 2**62 + 1, I64[1] - 1, I64[1]]
STRS = [b"", b"x", b"oops", "héllo".encode(), "日本語".encode(), b"Etc/UTC", b"UTC", b"Europe/Berlin", b"nil", b"Elixir.Foo", b"a" * 300,
        "\U0001f600".encode()]
MODS = [b"Foo", b"Foo.Bar", b"erlang", b"lists", b"Elixir", b"ElixirFoo", "Möd".encode(), b"nil", b"Elixir.Foo", b"Elixir.", b"Elixir.Elixir.X"]
FUNS = [b"bar", b"foo?", b"run!", b"nil", b"", "fü".encode(), b"Elixir.x"]


def clamp(n):
    return max(I64[0], min(I64[1], n))


def pick_i64(rng):
    r = rng.random()
    if r < 0.45:
        return rng.choice(EXT)
    if r < 0.7:
        return rng.randrange(-50, 50)
    if r < 0.85:
        return clamp(rng.choice(EXT) + rng.randrange(-3, 4))
    return rng.randrange(I64[0], I64[1] + 1)


def gen_range_case(rng):
    f, l = pick_i64(rng), pick_i64(rng)
    s = rng.choice([1, -1, 1, -1, 2, -2, 3, -3, 7, -7, 0, I64[0], I64[1], 2**62 + 1, -(2**62 + 1), 2**32, -2**32, pick_i64(rng), pick_i64(rng)])
    if rng.random() < 0.3:      # a short range somewhere in the 64-bit space, so that iteration reaches its end
        n = rng.randrange(0, 6)
        st = s if s != 0 and abs(s) < 2**60 else rng.choice([1, -1, 5, -5])
        l = clamp(f + st * n + rng.choice([0, 0, 1, -1]))
        s = st
    probes = {f, l, clamp(f + s), clamp(f - s), clamp(l + s), clamp(l - s), clamp(f + 1), clamp(l - 1), 0, I64[0], I64[1], pick_i64(rng)}
    if s not in (0,):
        n = rcount(f, l, s)
        if n:
            mid, lastm = f + (n // 2) * s, f + (n - 1) * s
            probes |= {mid, lastm, clamp(lastm + s), clamp(mid + 1)}
    return "range %d %d %d %d %s" % (f, l, s, rng.choice([3, 5, 8]), " ".join(str(x) for x in sorted(probes)))


def gen_simple_term(rng, depth=2, set_member=False):
    r = rng.randrange(12 if depth > 0 else 8)
    if r == 0:
        return A(rng.choice(["a", "ok", "nil", "true", "error", "Elixir.Foo", "x" * 40, "été"]))
    if r == 1:
        return ("i", rng.choice(EXT + [rng.randrange(-1000, 1000), rng.randrange(*I64)]))
    if r == 2:
        n = rng.choice([2**63, 2**64, 2**64 - 1, -2**63 - 1, 2**100 + 7, -(2**90)])
        return ("g", n < 0, abs(n).to_bytes((abs(n).bit_length() + 7) // 8, "little"))
    if r == 3:
        return ("b", rng.choice(STRS + [bytes([255, 0, 128])]))
    if r == 4:
        return ("s", rng.choice([b"", b"hello", "hé".encode()]))
    if r == 5:
        return ("n",) if rng.random() < 0.5 else ("l", [])
    if r == 6:
        return ("p", b"n@h", rng.randrange(2**15), rng.randrange(100), rng.randrange(2**32), None)
    if r == 7:
        return ("f", rng.choice([0x3ff0000000000000, 0xc000000000000000, 0x400921fb54442d18])) if not set_member else A("f")
    sub = lambda: gen_simple_term(rng, depth - 1, set_member)  # noqa
    if r == 8:
        return ("l", [sub() for _ in range(rng.randrange(1, 4))])
    if r == 9:
        return ("t", [sub() for _ in range(rng.randrange(0, 4))])
    if r == 10:
        keys = rng.sample(["a", "b", "c", "k1", "__struct__"], rng.randrange(0, 4))
        return ("m", [(A(k), sub()) for k in keys])
    return ("t", [A("ok"), sub()])


def fix_ints(t):
    """an `i` node must fit an i64 in the text format; wider values are big integers"""
    k = t[0]
    if k == "i" and not -2**63 <= t[1] < 2**63:
        n = t[1]
        return ("g", n < 0, abs(n).to_bytes((abs(n).bit_length() + 7) // 8, "little"))
    if k in ("l", "t"):
        return (k, [fix_ints(x) for x in t[1]])
    if k == "m":
        return ("m", [(fix_ints(a), fix_ints(b)) for a, b in t[1]])
    return t


def gen_wrapper(rng, kind=None):
    k = kind or rng.choice(["range", "date", "time", "naive", "datetime", "mapset", "msgerr", "keyerr", "termerr", "undef", "fclause", "cond"])
    u8 = lambda: rng.choice([0, 1, 12, 13, 23, 24, 29, 31, 59, 60, 255, rng.randrange(256)])  # noqa
    i32 = lambda: rng.choice([-2**31, -1, 0, 1, 1970, 2024, 9999, 2**31 - 1, rng.randrange(-2**31, 2**31)])  # noqa
    u32 = lambda: rng.choice([0, 1, 999999, 1000000, 2**32 - 1, rng.randrange(2**32)])  # noqa
    s = lambda: rng.choice(STRS)  # noqa
    if k == "range":
        return ("range", pick_i64(rng), pick_i64(rng), pick_i64(rng))
    if k == "date":
        return ("date", i32(), u8(), u8())
    if k == "time":
        return ("time", u8(), u8(), u8(), u32(), u8())
    if k == "naive":
        return ("naive", i32(), u8(), u8(), u8(), u8(), u8(), u32(), u8())
    if k == "datetime":
        return ("datetime", i32(), u8(), u8(), u8(), u8(), u8(), u32(), u8(), s(), s(), i32(), i32())
    if k == "mapset":
        ms = [gen_simple_term(rng, 2, set_member=True) for _ in range(rng.randrange(0, 6))]
        if rng.random() < 0.45:
            # the same member twice: literally, or in another representation of the same value
            ms += rng.choice([[("l", []), ("n",)], [("n",), ("l", [])], [("i", 5), ("g", False, bytes([5]))], [("g", False, bytes([0, 1])), ("i", 256)],
                              [("b", b"ab"), ("s", b"ab")], [("i", 7), ("i", 7)], [("t", [("l", [])]), ("t", [("n",)])]])
            rng.shuffle(ms)
        return ("mapset", ms)
    if k == "msgerr":
        return ("msgerr", rng.randrange(3), s())
    if k == "keyerr":
        return ("keyerr", gen_simple_term(rng), gen_simple_term(rng), rng.choice([None, s()]))
    if k == "termerr":
        return ("termerr", rng.randrange(5), gen_simple_term(rng))
    if k == "undef":
        return ("undef", rng.choice(MODS), rng.choice(FUNS), u8(), rng.choice([None, s()]))
    if k == "fclause":
        return ("fclause", rng.choice([None] + MODS), rng.choice([None] + FUNS), rng.choice([None, u8()]), rng.choice([None, gen_simple_term(rng), A("nil")]))
    return ("cond",)


def mutate_struct(rng, w):
    """the wrapper's spec term with one field replaced, removed, or the struct tag changed"""
    t = spec_term(w)
    m = list(t[1])
    names = [k[1].decode() for k, _ in m]
    r = rng.randrange(10)
    idx = rng.randrange(len(m))
    key, val = m[idx]
    if r == 0:
        m[idx] = (key, A("x"))
    elif r == 1 and names[idx] != "__struct__":
        del m[idx]
    elif r == 2:
        m = [(k, A(rng.choice(["Elixir.Range", "Elixir.Date", "Elixir.Time", "Elixir.Other", "nil"])) if k == A("__struct__") else v) for k, v in m]
    elif r == 3:
        return rng.choice([("l", [A("a")]), ("n",), ("i", 5), ("t", [A("__struct__"), A("Elixir.Date")]), ("m", [])])
    elif val[0] == "i":
        n = val[1]
        choice = rng.randrange(6)
        if choice == 0:
            m[idx] = (key, ("i", rng.choice([256, 257, 300, -1, -256, 2**31, -2**31 - 1, 2**32, 2**32 + n, 2**63 - 1, -2**63, n + 256, n + 2**32, n - 2**32])))
        elif choice == 1:
            m[idx] = (key, ("g", n < 0, abs(n).to_bytes(max(1, (abs(n).bit_length() + 7) // 8) + rng.choice([0, 0, 1, 4]), "little")))
        elif choice == 2:
            big = rng.choice([2**63, 2**64, 2**64 + n if n >= 0 else -2**64, -2**63 - 1])
            m[idx] = (key, ("g", big < 0, abs(big).to_bytes(9, "little")))
        elif choice == 3:
            m[idx] = (key, ("f", 0x3ff0000000000000))
        elif choice == 4:
            m[idx] = (key, ("b", b"12"))
        else:
            m[idx] = (key, ("i", n))
    elif val[0] == "t" and names[idx] == "microsecond":
        m[idx] = (key, rng.choice([("t", [("i", 2**32), ("i", 6)]), ("t", [("i", 5), ("i", 256)]), ("t", [("i", -1), ("i", 0)]), ("t", [("i", 1)]), A("nil"),
                                   ("t", [("g", False, b"\x05\x00"), ("i", 3)]), ("t", [A("a"), ("i", 0)]), ("l", [("i", 1), ("i", 2)])]))
    elif val[0] == "b":
        m[idx] = (key, rng.choice([("l", [("i", c) for c in b"abc"]), ("s", b"str"), ("l", [("i", 300)]), A("nil"), ("b", bytes([255, 254])), ("l", []), ("n",),
                                   ("i", 3)]))
    elif val[0] == "a":
        m[idx] = (key, rng.choice([("b", b"Foo"), A("nil"), A("Elixir.Other"), ("i", 1)]))
    else:
        m[idx] = (key, rng.choice([A("nil"), ("n",), ("t", [A("set"), ("i", 0), ("l", [])]), ("t", [A("sets"), ("i", 0), ("m", [])]), ("t", [A("set"), ("m", [])])]))
    return ("m", m)


def gen_proplist(rng):
    els = []
    keys = [A("a"), A("b"), A("c"), A("a"), ("b", b"k"), ("s", b"k"), ("i", 1), ("t", [A("x")]), A("true")]
    for _ in range(rng.randrange(0, 7)):
        r = rng.random()
        if r < 0.6:
            els.append(("t", [rng.choice(keys), gen_simple_term(rng, 1)]))
        elif r < 0.8:
            els.append(rng.choice([A("flag"), A("a"), A("verbose")]))
        else:
            els.append(rng.choice([("i", 7), ("t", [A("x")]), ("t", [A("a"), ("i", 1), ("i", 2)]), ("b", b"junk"), ("n",)]))
    return ("l", els)


def gen_map(rng):
    keys = [A("a"), A("b"), A("zz"), ("b", b"k"), ("i", 1), ("i", 2**40), ("t", [A("x"), ("i", 1)]), ("l", [("i", 1)])]
    ks = rng.sample(keys, rng.randrange(0, 6))
    return ("m", [(k, gen_simple_term(rng, 1)) for k in ks])


def nested_proplist(rng, depth):
    if depth == 0:
        return gen_simple_term(rng, 1)
    n = rng.randrange(1, 4)
    return ("l", [("t", [A(rng.choice("abcd")), nested_proplist(rng, depth - 1)]) if rng.random() < 0.8 else A("flag") for _ in range(n)])


def run(ctx):
    rng = ctx.rng
    cases = []
    # ---- ranges
    for f, l, s in [(I64[0], I64[1], 1), (I64[1], I64[0], -1), (I64[0], I64[1], I64[1]), (I64[1], I64[0], I64[0]), (0, I64[1], 2**62 + 1),
                    (0, I64[0], -(2**62 + 1)), (I64[0], I64[1], 2**63 - 1), (-5, 5, 3), (5, -5, -3), (1, 10, 0), (3, 3, 1), (3, 3, -1), (3, 3, I64[0]),
                    (I64[1] - 1, I64[1], 1), (I64[0] + 1, I64[0], -1), (I64[1], I64[1], 1), (I64[0], I64[0], -1), (-7, 8, 5), (I64[1] - 10, I64[1], 4),
                    (I64[0] + 10, I64[0], -4), (10, 1, 1), (1, 10, -1), (0, 0, 0)]:
        pr = sorted({f, l, 0, -1, 1, I64[0], I64[1], clamp(f + s), clamp(l - s), clamp(l + 1), clamp(f - 1), -2, 3, 8, -5})
        cases.append("range %d %d %d 8 %s" % (f, l, s, " ".join(map(str, pr))))
    for _ in range(ctx.budget(1500, 40000)):
        cases.append(gen_range_case(rng))
    # ---- wrappers: to, rt, from (valid and mutated)
    for kind in ["range", "date", "time", "naive", "datetime", "mapset", "msgerr", "keyerr", "termerr", "undef", "fclause", "cond"]:
        for _ in range(ctx.budget(80, 2500)):
            w = gen_wrapper(rng, kind)
            cases.append("rt " + show_w(w))
            if rng.random() < 0.3:
                cases.append("to " + show_w(w))
            kt = kind_text(w)
            cases.append("from %s %s" % (kt, etf.show(spec_term(w))))
            for _ in range(3):
                cases.append("from %s %s" % (kt, etf.show(fix_ints(mutate_struct(rng, w)))))
            if rng.random() < 0.2:
                cases.append("from %s %s" % (rng.choice(KINDS), etf.show(spec_term(w))))
    cases.append("rt range %d %d %d" % (I64[0], I64[1], I64[0]))
    cases.append("rt fclause - - - -")
    cases.append("rt fclause %s %s 3 T %s" % (hx(b"Foo"), hx(b"nil"), etf.show(A("nil"))))
    cases.append("rt undef %s %s 2 -" % (hx(b"Elixir.Foo"), hx(b"bar")))
    # ---- proplists and maps
    for _ in range(ctx.budget(300, 8000)):
        t = rng.choice([gen_proplist, gen_proplist, gen_map])(rng)
        for op in ("norm", "tomap", "toplist", "there", "back", "isprop", "rec"):
            if rng.random() < 0.6:
                cases.append("pl %s %s" % (op, etf.show(t)))
    for _ in range(ctx.budget(60, 1500)):
        cases.append("pl rec " + etf.show(nested_proplist(rng, rng.randrange(1, 4))))
    for t in [("n",), ("l", []), ("i", 3), A("x"), ("t", [A("a"), ("i", 1)]), ("m", []), ("b", b"x"), ("L", [("i", 1)], ("i", 2))]:
        for op in ("norm", "tomap", "toplist", "there", "back", "isprop", "rec"):
            cases.append("pl %s %s" % (op, etf.show(t)))
    # ---- builders
    for _ in range(ctx.budget(150, 4000)):
        n = rng.randrange(0, 6)
        ents = [(rng.choice([b"a", b"b", b"c", b"name", "clé".encode(), b"a"]), gen_simple_term(rng, 1)) for _ in range(n)]
        body = "%d %s" % (n, " ".join("%s %s" % (hx(k), etf.show(v)) for k, v in ents))
        cases.append(("kw " + body).strip())
        cases.append(("akm " + body).strip())
        cases.append(("kwget %s %s" % (hx(rng.choice([b"a", b"b", b"zz"])), body)).strip())

    def nontrivial(c, impl):
        p = c.split()
        if p[0] == "range":
            return c if rcount(int(p[1]), int(p[2]), int(p[3])) >= 2 else None
        return c if len(p) > 3 else None

    def classify(c, impl):
        p = c.split()
        out = ["op:" + p[0]]
        if p[0] == "range":
            n = rcount(int(p[1]), int(p[2]), int(p[3]))
            out.append("members:" + ("0" if n == 0 else "1" if n == 1 else "2-8" if n <= 8 else "<2^32" if n < 2**32 else "<2^63" if n < 2**63 else ">=2^63"))
            out.append("step:" + ("0" if p[3] == "0" else "+" if int(p[3]) > 0 else "-") + ("wide" if abs(int(p[3])) >= 2**31 else ""))
        elif p[0] in ("rt", "to"):
            out.append("kind:" + p[1])
            if p[0] == "rt":
                out.append("result:" + ("known" if "Elixir." in c and p[1] in ("undef", "fclause") else "checked"))
        elif p[0] == "from":
            out.append("kind:" + p[1].split(":")[0])
            out.append("result:" + ("None" if impl == "None" else "value"))
        elif p[0] == "pl":
            out.append("plop:" + p[1])
            out.append("input:" + p[2])
        return out
    ctx.diff_domain("elixir", cases, oracle=oracle, nontrivial=nontrivial, classify=classify)
