(* The reply addresses of the calls a node is waiting for are the node's own identifiers: along every run each of them
   carries the node's name and the creation the node was started with, so a reply addressed to another node or another
   incarnation never matches a waiting call by name and creation. *)
From EDP Require Import Base.Bytes Term.Term Gen.PidConsts Codec.Decode Dist.PidAlloc Dist.Control Dist.Receive Node.Node Node.NodeFacts
  Node.CreationFacts.
Open Scope N_scope.

Definition own (name : bytes) (c : N) (p : pidr) : Prop := pnode p = name /\ pcreation p = c.

Definition own_inv (name : bytes) (c : N) (st : nstate) : Prop :=
  n_name st = name /\ creation (n_alloc st) = c /\ Forall (fun e => own name c (fst e)) (n_pending st).

Lemma deliver_name st p m : n_name (fst (deliver st p m)) = n_name st.
Proof.
  unfold deliver. destruct (find_proc p (n_procs st)); [|reflexivity].
  destruct (crashes m); [|reflexivity].
  destruct (find_proc p (n_procs (set_procs st (update_proc p (add_event m) (n_procs st))))); reflexivity.
Qed.

Lemma deliver_pending st p m : n_pending (fst (deliver st p m)) = n_pending st.
Proof. pose proof (deliver_rpc_part st p m) as H. unfold rpc_part in H. now injection H. Qed.

Lemma deliver_alloc st p m : n_alloc (fst (deliver st p m)) = n_alloc st.
Proof. pose proof (deliver_rpc_part st p m) as H. unfold rpc_part in H. now injection H. Qed.

Lemma own_inv_ext name c st st' : n_name st' = n_name st -> n_alloc st' = n_alloc st -> n_pending st' = n_pending st ->
  own_inv name c st -> own_inv name c st'.
Proof. unfold own_inv. intros -> -> ->. exact (fun H => H). Qed.

Lemma own_inv_filter name c st st' (f : pidr * (N * bool) -> bool) : n_name st' = n_name st -> n_alloc st' = n_alloc st ->
  n_pending st' = filter f (n_pending st) -> own_inv name c st -> own_inv name c st'.
Proof.
  unfold own_inv. intros -> -> -> (Hn & Hc & Hp). repeat split; try assumption.
  rewrite Forall_forall in *. intros e He. apply filter_In in He. apply Hp, He.
Qed.

Lemma deliver_own name c st p m : own_inv name c st -> own_inv name c (fst (deliver st p m)).
Proof. apply own_inv_ext; [apply deliver_name|apply deliver_alloc|apply deliver_pending]. Qed.

Lemma send_arm_own name c st fs pl : own_inv name c st -> own_inv name c (send_arm st fs pl).
Proof.
  intros H. unfold send_arm. destruct pl as [body|]; [|exact H]. destruct (pid_of (role 2 fs)) as [p|]; [|exact H].
  destruct (find_proc p (n_procs st)); [now apply deliver_own|].
  destruct (find (fun e => same_key (fst e) p) (n_pending st)) as [[rp [i sh]]|]; [|exact H].
  eapply own_inv_filter; [| | |exact H]; reflexivity.
Qed.

Lemma route_own name c st m pl : own_inv name c st -> own_inv name c (route st m pl).
Proof.
  intros H. unfold route. destruct m as [v fs|]; [|exact H].
  repeat (match goal with
          | |- own_inv _ _ (match ?x with _ => _ end) => destruct x
          end; try exact H; try (now apply send_arm_own));
  unfold regsend_arm, exit_arm, monexit_arm;
  repeat (match goal with
          | |- own_inv _ _ (match ?x with _ => _ end) => destruct x
          | |- own_inv _ _ (fst (deliver _ _ _)) => now apply deliver_own
          end; try exact H).
Qed.

Lemma on_frame_own name c cfg st data : own_inv name c st -> own_inv name c (on_frame cfg st data).
Proof.
  intros H. unfold on_frame. destruct data as [|b0 rest]; [exact H|]. destruct (negb (b0 =? pass_through)); [exact H|].
  destruct (decode_trailing cfg rest) as [[ctl remaining]|]; [|exact H].
  destruct (from_term Gen.ControlTable.control_table ctl); [|exact H].
  destruct remaining; [now apply route_own|]. destruct (decode_trailing cfg (n :: remaining)) as [[pl ?]|]; [now apply route_own|exact H].
Qed.

Lemma remote_write_own name c st o : own_inv name c st -> own_inv name c (fst (remote_write st o)).
Proof.
  intros H. unfold remote_write. destruct (n_connected st); [destruct (Dist.Send.send_frame 0 [] o)|]; cbn [fst];
    (eapply own_inv_ext; [| | |exact H]; reflexivity).
Qed.

Theorem own_inv_step name c cfg st o : own_inv name c st -> own_inv name c (fst (step cfg st o)).
Proof.
  intros H. pose proof H as (Hn & Hc & Hp).
  destruct o; cbn [step].
  - destruct (allocate (n_alloc st)) as [p a'] eqn:Ea. cbn [fst]. pose proof (allocate_creation (n_alloc st)) as [Hc' _].
    rewrite Ea in Hc'. cbn [snd] in Hc'. unfold own_inv. cbn [n_name n_alloc n_pending]. repeat split; try assumption. congruence.
  - destruct (lookup_name name0 (n_names st)); cbn [fst]; [exact H|]. eapply own_inv_ext; [| | |exact H]; reflexivity.
  - destruct (lookup_name name0 (n_names st)); cbn [fst]; [|exact H]. eapply own_inv_ext; [| | |exact H]; reflexivity.
  - exact H.
  - destruct (deliver st to (MRegular msg)) as [st' ok] eqn:Ed. cbn [fst]. pose proof (deliver_own name c st to (MRegular msg) H) as Hd.
    now rewrite Ed in Hd.
  - destruct (lookup_name name0 (n_names st)) as [p|]; [|exact H].
    destruct (deliver st p (MRegular msg)) as [st' ok] eqn:Ed. cbn [fst]. pose proof (deliver_own name c st p (MRegular msg) H) as Hd.
    now rewrite Ed in Hd.
  - cbn [fst]. eapply own_inv_ext; [| | |exact H]; reflexivity.
  - cbn [fst]. eapply own_inv_ext; [| | |exact H]; reflexivity.
  - unfold make_reference. destruct (make_ref (n_refctr st)). cbn [fst]. eapply own_inv_ext; [| | |exact H]; reflexivity.
  - cbn [fst]. eapply own_inv_ext; [| | |exact H]; reflexivity.
  - pose proof (allocate_creation (n_alloc st)) as [Hc' Hp'].
    destruct (allocate (n_alloc st)) as [p a'] eqn:Ea. cbn [fst snd] in Hc', Hp'.
    destruct (n_connected st); [destruct (Dist.Send.send_frame 0 [] _)|]; cbn [fst]; unfold own_inv; cbn [n_name n_alloc n_pending];
      repeat split; try assumption; try congruence.
    apply Forall_app. split; [assumption|]. constructor; [|constructor]. cbn [fst]. unfold own, mk_pid. cbn [pnode pcreation].
    split; [assumption|congruence].
  - cbn [fst]. eapply own_inv_filter; [| | |exact H]; reflexivity.
  - destruct (n_connected st); cbn [fst]; [now apply on_frame_own|exact H].
  - cbn [fst]. eapply own_inv_ext; [| | |exact H]; reflexivity.
  - cbn [fst]. eapply own_inv_ext; [| | |exact H]; reflexivity.
  - now apply remote_write_own.
  - destruct (n_connected st) eqn:Ec; [|exact H]. apply remote_write_own. eapply own_inv_ext; [| | |exact H]; reflexivity.
  - unfold make_reference. destruct (make_ref (n_refctr st)) as [r c0].
    assert (Hw : own_inv name c (with_refctr st c0)) by (eapply own_inv_ext; [| | |exact H]; reflexivity).
    match goal with |- own_inv _ _ (fst (match remote_write ?s ?o with _ => _ end)) =>
      pose proof (remote_write_own name c s o Hw) as Hr; revert Hr; destruct (remote_write s o) as [st' u] end.
    cbn [fst]. intros Hr. destruct u; exact Hr.
Qed.

Lemma own_inv_init name c conn : own_inv name c (node_init name c conn).
Proof. unfold own_inv, node_init. cbn. repeat split. constructor. Qed.

Theorem own_inv_run name c cfg conn ops : own_inv name c (run cfg (node_init name c conn) ops).
Proof.
  unfold run. generalize (own_inv_init name c conn). generalize (node_init name c conn).
  induction ops as [|o ops IH]; intros st H; [exact H|]. cbn [fold_left]. apply IH. now apply own_inv_step.
Qed.

(* every call the node is waiting for, at any point of any run, is addressed by the node's own name and creation *)
Theorem waiting_calls_have_own_reply_address name c cfg conn ops e :
  In e (n_pending (run cfg (node_init name c conn) ops)) -> pnode (fst e) = name /\ pcreation (fst e) = c.
Proof.
  intros He. pose proof (own_inv_run name c cfg conn ops) as (_ & _ & Hp). rewrite Forall_forall in Hp. exact (Hp e He).
Qed.

(* ---------- the processes of a node ---------- *)
(* The same for the live processes: every process the node holds, at any point of any run, has an identifier with the
   node's name and creation (identifiers enter the table in spawn only; links, monitors, deliveries, exits and inbound
   frames never change an identifier, they only remove entries). *)
Definition pids (st : nstate) : list pidr := map pp (n_procs st).

Definition procs_inv (name : bytes) (c : N) (st : nstate) : Prop :=
  n_name st = name /\ creation (n_alloc st) = c /\ Forall (own name c) (pids st).

Lemma update_pids p f : (forall x, pp (f x) = pp x) -> forall ps, map pp (update_proc p f ps) = map pp ps.
Proof.
  intros Hf. induction ps as [|x ps IH]; [reflexivity|]. cbn [update_proc].
  destruct (pid_eqb (pp x) p); cbn [map]; [now rewrite Hf|now rewrite IH].
Qed.

Lemma remove_incl p : forall ps, incl (map pp (remove_proc p ps)) (map pp ps).
Proof.
  induction ps as [|x ps IH]; [apply incl_refl|]. cbn [remove_proc]. destruct (pid_eqb (pp x) p); cbn [map].
  - apply incl_tl, incl_refl.
  - apply incl_cons; [now left|]. apply incl_tl, IH.
Qed.

Lemma terminate_pids st x : incl (pids (terminate st x)) (pids st).
Proof.
  unfold pids. cbn [terminate n_procs]. eapply incl_tran; [apply remove_incl|].
  rewrite (fold_update_pids (fun mr : pidr * term => fst mr) (fun mr => add_event (MMonitorExit (pp x) (snd mr) (TAtom n_error))))
    by (intros; reflexivity).
  rewrite (fold_update_pids (fun l : pidr => l) (fun _ => add_event (MExit (pp x) (TAtom n_error)))) by (intros; reflexivity).
  apply incl_refl.
Qed.

Lemma deliver_pids st p m : incl (pids (fst (deliver st p m))) (pids st).
Proof.
  unfold deliver. destruct (find_proc p (n_procs st)); [|apply incl_refl].
  set (st1 := set_procs st (update_proc p (add_event m) (n_procs st))).
  assert (H1 : pids st1 = pids st) by (unfold pids, st1; cbn [set_procs n_procs]; apply update_pids; intros; reflexivity).
  destruct (crashes m); [|cbn [fst]; rewrite H1; apply incl_refl].
  destruct (find_proc p (n_procs st1)); cbn [fst]; [|rewrite H1; apply incl_refl].
  eapply incl_tran; [apply terminate_pids|]. rewrite H1. apply incl_refl.
Qed.

Lemma procs_inv_incl name c st st' : n_name st' = n_name st -> n_alloc st' = n_alloc st -> incl (pids st') (pids st) ->
  procs_inv name c st -> procs_inv name c st'.
Proof.
  unfold procs_inv. intros -> -> Hi (Hn & Hc & Hp). repeat split; try assumption.
  rewrite Forall_forall in *. intros q Hq. apply Hp, Hi, Hq.
Qed.

Lemma deliver_procs name c st p m : procs_inv name c st -> procs_inv name c (fst (deliver st p m)).
Proof. apply procs_inv_incl; [apply deliver_name|apply deliver_alloc|apply deliver_pids]. Qed.

Lemma send_arm_procs name c st fs pl : procs_inv name c st -> procs_inv name c (send_arm st fs pl).
Proof.
  intros H. unfold send_arm. destruct pl as [body|]; [|exact H]. destruct (pid_of (role 2 fs)) as [p|]; [|exact H].
  destruct (find_proc p (n_procs st)); [now apply deliver_procs|].
  destruct (find (fun e => same_key (fst e) p) (n_pending st)) as [[rp [i sh]]|]; [|exact H].
  eapply procs_inv_incl; [| | |exact H]; try reflexivity. apply incl_refl.
Qed.

Lemma route_procs name c st m pl : procs_inv name c st -> procs_inv name c (route st m pl).
Proof.
  intros H. unfold route. destruct m as [v fs|]; [|exact H].
  repeat (match goal with
          | |- procs_inv _ _ (match ?x with _ => _ end) => destruct x
          end; try exact H; try (now apply send_arm_procs));
  unfold regsend_arm, exit_arm, monexit_arm;
  repeat (match goal with
          | |- procs_inv _ _ (match ?x with _ => _ end) => destruct x
          | |- procs_inv _ _ (fst (deliver _ _ _)) => now apply deliver_procs
          end; try exact H).
Qed.

Lemma on_frame_procs name c cfg st data : procs_inv name c st -> procs_inv name c (on_frame cfg st data).
Proof.
  intros H. unfold on_frame. destruct data as [|b0 rest]; [exact H|]. destruct (negb (b0 =? pass_through)); [exact H|].
  destruct (decode_trailing cfg rest) as [[ctl remaining]|]; [|exact H].
  destruct (from_term Gen.ControlTable.control_table ctl); [|exact H].
  destruct remaining; [now apply route_procs|]. destruct (decode_trailing cfg (n :: remaining)) as [[pl ?]|]; [now apply route_procs|exact H].
Qed.

Ltac same_procs H := eapply procs_inv_incl; [| | |exact H]; try reflexivity; try apply incl_refl.

Lemma remote_write_procs name c st o : procs_inv name c st -> procs_inv name c (fst (remote_write st o)).
Proof.
  intros H. unfold remote_write. destruct (n_connected st); [destruct (Dist.Send.send_frame 0 [] o)|]; cbn [fst]; same_procs H.
Qed.

Lemma set_procs_same name c st ps : map pp ps = pids st -> procs_inv name c st -> procs_inv name c (set_procs st ps).
Proof. intros Hm H. eapply procs_inv_incl; [| | |exact H]; try reflexivity. unfold pids at 1. cbn [set_procs n_procs]. rewrite Hm. apply incl_refl. Qed.

Theorem procs_inv_step name c cfg st o : procs_inv name c st -> procs_inv name c (fst (step cfg st o)).
Proof.
  intros H. pose proof H as (Hn & Hc & Hp).
  destruct o; cbn [step].
  - pose proof (allocate_creation (n_alloc st)) as [Hc' Hp'].
    destruct (allocate (n_alloc st)) as [p a'] eqn:Ea. cbn [fst snd] in *. unfold procs_inv, pids. cbn [n_name n_alloc n_procs].
    repeat split; try assumption; try congruence. rewrite map_app. apply Forall_app. split; [exact Hp|].
    constructor; [|constructor]. cbn [pp]. unfold own, mk_pid. cbn [pnode pcreation]. split; [assumption|congruence].
  - destruct (lookup_name name0 (n_names st)); cbn [fst]; [exact H|]. same_procs H.
  - destruct (lookup_name name0 (n_names st)); cbn [fst]; [|exact H]. same_procs H.
  - exact H.
  - destruct (deliver st to (MRegular msg)) as [st' ok] eqn:Ed. cbn [fst]. pose proof (deliver_procs name c st to (MRegular msg) H) as Hd.
    now rewrite Ed in Hd.
  - destruct (lookup_name name0 (n_names st)) as [p|]; [|exact H].
    destruct (deliver st p (MRegular msg)) as [st' ok] eqn:Ed. cbn [fst]. pose proof (deliver_procs name c st p (MRegular msg) H) as Hd.
    now rewrite Ed in Hd.
  - cbn [fst]. apply set_procs_same; [|exact H]. unfold pids. now rewrite !update_pids by (intros; reflexivity).
  - cbn [fst]. apply set_procs_same; [|exact H]. unfold pids. now rewrite !update_pids by (intros; reflexivity).
  - unfold make_reference. destruct (make_ref (n_refctr st)) as [r c0]. cbn [fst].
    assert (Hw : procs_inv name c (with_refctr st c0)) by same_procs H.
    apply set_procs_same; [|exact Hw]. unfold pids. now rewrite update_pids by (intros; reflexivity).
  - cbn [fst]. apply set_procs_same; [|exact H]. unfold pids. now rewrite update_pids by (intros; reflexivity).
  - pose proof (allocate_creation (n_alloc st)) as [Hc' _].
    destruct (allocate (n_alloc st)) as [p a'] eqn:Ea. cbn [fst snd] in Hc'.
    destruct (n_connected st); [destruct (Dist.Send.send_frame 0 [] _)|]; cbn [fst]; unfold procs_inv, pids; cbn [n_name n_alloc n_procs];
      repeat split; try assumption; congruence.
  - cbn [fst]. same_procs H.
  - destruct (n_connected st); cbn [fst]; [now apply on_frame_procs|exact H].
  - cbn [fst]. same_procs H.
  - cbn [fst]. same_procs H.
  - now apply remote_write_procs.
  - destruct (n_connected st) eqn:Ec; [|exact H]. apply remote_write_procs. same_procs H.
  - unfold make_reference. destruct (make_ref (n_refctr st)) as [r c0].
    assert (Hw : procs_inv name c (with_refctr st c0)) by same_procs H.
    match goal with |- procs_inv _ _ (fst (match remote_write ?s ?o with _ => _ end)) =>
      pose proof (remote_write_procs name c s o Hw) as Hr; revert Hr; destruct (remote_write s o) as [st' u] end.
    cbn [fst]. intros Hr. destruct u; exact Hr.
Qed.

Theorem procs_inv_run name c cfg conn ops : procs_inv name c (run cfg (node_init name c conn) ops).
Proof.
  assert (H0 : procs_inv name c (node_init name c conn)) by (unfold procs_inv, node_init, pids; cbn; repeat split; constructor).
  unfold run. revert H0. generalize (node_init name c conn).
  induction ops as [|o ops IH]; intros st H; [exact H|]. cbn [fold_left]. apply IH. now apply procs_inv_step.
Qed.

(* every process a node holds, at any point of any run, is identified by the node's own name and creation *)
Theorem live_processes_have_own_identifiers name c cfg conn ops x :
  In x (n_procs (run cfg (node_init name c conn) ops)) -> pnode (pp x) = name /\ pcreation (pp x) = c.
Proof.
  intros Hx. pose proof (procs_inv_run name c cfg conn ops) as (_ & _ & Hp). rewrite Forall_forall in Hp.
  apply Hp. unfold pids. now apply in_map.
Qed.
