(* C05 — framing is invariant under how the transport splits the byte stream. *)
From EDP Require Import Base.Bytes Gen.FramingConsts Dist.Framing Dist.FramingFacts Gen.Prealloc Codec.PreallocFacts.

(* Any chunking (including Pending polls) of the concatenated frames of msgs, followed by any tail:
   |msgs| reads return exactly msgs, in order, and leave the reader positioned at the tail. *)
Theorem C05_chunking_invariant : forall m msgs cs tail, wfc cs -> Forall (fits m) msgs ->
  data_of cs = concat (map (frame m) msgs) ++ tail ->
  exists cs', read_frames (length msgs) m cs = (map ROk msgs, cs') /\ data_of cs' = tail /\ wfc cs'.
Proof. exact read_frames_msgs. Qed.

(* the streaming writer and the one-shot framer produce identical bytes *)
Theorem C05_oneshot_eq_streaming : forall m data, concat (write_framed m data) = frame m data.
Proof. exact write_framed_eq_frame. Qed.

(* a zero-length frame is an empty message (tick) *)
Theorem C05_tick : forall m cs tail, wfc cs -> data_of cs = frame m [] ++ tail ->
  exists cs', read_framed m cs = (ROk [], cs', 0) /\ data_of cs' = tail /\ wfc cs'.
Proof.
  intros m cs tail Hwf Hd. apply (read_framed_frame m [] cs tail Hwf); [|exact Hd].
  split; [destruct m; vm_compute; reflexivity|vm_compute; discriminate].
Qed.

(* a declared length above the cap is refused before any buffer of that size is allocated *)
Theorem C05_cap_before_alloc : forall m cs p r, read_exact (N.of_nat (prefix_size m)) cs = Some (p, r) ->
  framing_max_message_size < unbe p -> read_framed m cs = (RErr TooLarge, r, 0).
Proof. exact read_framed_cap. Qed.

(* end of stream anywhere inside a frame (prefix or body) is an error, never a short message *)
Theorem C05_eof_inside_frame_is_error : forall m msg cs (cut : nat), wfc cs -> fits m msg ->
  (cut < length (frame m msg))%nat -> data_of cs = firstn cut (frame m msg) ->
  fst (fst (read_framed m cs)) = RErr Eof.
Proof. exact read_framed_truncated. Qed.

(* read_exact is the chunking-independent core *)
Theorem C05_read_exact_any_chunking : forall cs n a b, wfc cs -> data_of cs = a ++ b -> len a = n ->
  exists cs', read_exact n cs = Some (a, cs') /\ data_of cs' = b /\ wfc cs'.
Proof. exact read_exact_spec. Qed.

Example C05_example :
  read_frames 3 Distribution [Data [0]; Pending; Data [0; 0; 2; 7]; Data [8; 0; 0]; Pending; Data [0; 0; 0; 0; 0]; Data [1; 9]]
  = ([ROk [7; 8]; ROk []; ROk [9]], []).
Proof. vm_compute. reflexivity. Qed.

(* the frame buffer is allocated only after the announced length has been compared with the limit, in both readers
   (checked on the source by the translator, Gen/Prealloc.v) *)
Theorem C05_cap_checked_before_allocation : forallb snd cap_before_alloc_sites = true /\ length cap_before_alloc_sites = 2%nat.
Proof. exact cap_checked_before_allocation. Qed.

Check C05_chunking_invariant : forall m msgs cs tail, wfc cs -> Forall (fits m) msgs ->
  data_of cs = concat (map (frame m) msgs) ++ tail ->
  exists cs', read_frames (length msgs) m cs = (map ROk msgs, cs') /\ data_of cs' = tail /\ wfc cs'.
