pub fn unhex(s: &str) -> Vec<u8> {
    if s == "." || s == "-" {
        return Vec::new();
    }
    let b = s.as_bytes();
    assert!(b.len() % 2 == 0, "odd hex {s}");
    (0..b.len() / 2)
        .map(|i| u8::from_str_radix(&s[2 * i..2 * i + 2], 16).expect("hex"))
        .collect()
}

pub fn hex(b: &[u8]) -> String {
    if b.is_empty() {
        return ".".to_string();
    }
    let mut s = String::with_capacity(b.len() * 2);
    for x in b {
        s.push_str(&format!("{:02x}", x));
    }
    s
}
