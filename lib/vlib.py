"""Shared machinery of ./check: translator call, Coq build + audit, harness/model runners,
correspondence diff, decision, replay and evidence files."""
import fcntl, hashlib, json, os, random, re, subprocess, sys, time, contextlib, glob, shutil

VERIF = os.path.dirname(os.path.dirname(os.path.abspath(__file__)))
REPO = os.environ.get("VERIF_REPO", "/repo")
COQ = os.path.join(VERIF, "coq")
HARNESS = os.path.join(VERIF, "harness")
WORK = os.path.join(VERIF, "work")
EVID = os.path.join(VERIF, "evidence")
HARNESS_BIN = os.path.join(HARNESS, "target", "debug", "edp_verif_harness")
MODEL_BIN = os.path.join(COQ, "extract", "model_runner")
NPROC = str(os.cpu_count() or 8)

ENV = dict(os.environ)
ENV.update({"CARGO_NET_OFFLINE": "true", "GOPROXY": "off", "PIP_NO_INDEX": "1"})

TRUSTED_BASE = [
    "Coq 8.16.1 kernel (coqc full .vo build; vm_compute used for finite table obligations and _refuted witnesses; no native_compute)",
    "no axioms declared; Print Assumptions of every property theorem is checked against an allow-list on every run",
    "tools/gen_consts.py (translator for constants/tables, data only)",
    "extraction with ExtrOcamlBasic directives only (bool, option, unit, list, prod, sumbool, sumor) + OCaml 4.13 + coq/extract/driver.ml",
    "correspondence check: case generators, Rust harness (path deps on /repo working tree), canonicalisation",
    "hand-written Gallina model of the Rust control flow (modelled, not verified; tied by the correspondence run)",
]


def log(*a):
    print(*a, file=sys.stderr, flush=True)


@contextlib.contextmanager
def flock(name):
    os.makedirs(WORK, exist_ok=True)
    f = open(os.path.join(WORK, ".lock." + name), "w")
    try:
        fcntl.flock(f, fcntl.LOCK_EX)
        yield
    finally:
        fcntl.flock(f, fcntl.LOCK_UN)
        f.close()


def sh(cmd, cwd=None, timeout=1800, inp=None, env=None):
    p = subprocess.run(cmd, cwd=cwd, shell=isinstance(cmd, str), input=inp, capture_output=True,
                       text=True, timeout=timeout, env=env or ENV)
    return p.returncode, p.stdout, p.stderr


# ------------------------------------------------------------------------------------------
# translator

def regen():
    with flock("coq"):
        rc, out, err = sh([sys.executable, os.path.join(VERIF, "tools", "gen_consts.py"), "--repo", REPO])
    if rc != 0:
        return {"files": {}, "degraded": ["<translator crashed>"], "error": err[-2000:], "changed_vs_snapshot": []}
    return json.loads(out.strip().splitlines()[-1])


# ------------------------------------------------------------------------------------------
# Coq

def coq_files():
    res = []
    for root, _d, files in os.walk(os.path.join(COQ, "theories")):
        for f in files:
            if f.endswith(".v"):
                res.append(os.path.relpath(os.path.join(root, f), COQ))
    return sorted(res)


def coq_makefile():
    proj = "-Q theories EDP\n" + "\n".join(coq_files()) + "\n"
    p = os.path.join(COQ, "_CoqProject")
    old = open(p).read() if os.path.exists(p) else None
    if old != proj or not os.path.exists(os.path.join(COQ, "Makefile")):
        with open(p, "w") as f:
            f.write(proj)
        sh(["coq_makefile", "-f", "_CoqProject", "-o", "Makefile"], cwd=COQ)


def coq_build(targets, timeout=1500):
    """make the given .vo targets (full .vo build). Returns (ok, log_tail, failing_file)."""
    with flock("coq"):
        coq_makefile()
        t0 = time.time()
        try:
            rc, out, err = sh(["make", "-j" + NPROC, "-k"] + list(targets), cwd=COQ, timeout=timeout)
        except subprocess.TimeoutExpired:
            return False, "coq build timed out after %ds" % timeout, "<timeout>"
    txt = out + "\n" + err
    if rc == 0:
        return True, "built in %.1fs" % (time.time() - t0), None
    m = re.search(r'File "\./([^"]+)", line (\d+)', txt)
    failing = m.group(1) if m else "<unknown>"
    idx = txt.find("Error")
    tail = txt[max(0, idx - 600): idx + 1500] if idx >= 0 else txt[-2000:]
    return False, tail, failing


FORBIDDEN = re.compile(r"\b(Admitted|admit|Axiom|Axioms|Parameter|Parameters|Conjecture|Conjectures|Hypothesis|Hypotheses|Variable|Variables|Admit Obligations|Unset Guard Checking|bypass_check|Unset Positivity Checking|Unset Universe Checking|type-in-type|impredicative-set)\b")


def strip_coq_comments(src):
    out = []
    depth = 0
    i = 0
    while i < len(src):
        if src.startswith("(*", i):
            depth += 1
            i += 2
        elif src.startswith("*)", i) and depth > 0:
            depth -= 1
            i += 2
        else:
            if depth == 0:
                out.append(src[i])
            i += 1
    return "".join(out)


def audit_sources():
    """grep for forbidden vernacular over theories/ (comments stripped). Section Variables are
    allowed only inside a Section (checked structurally)."""
    bad = []
    for rel in coq_files() + ["extract/Extract.v"]:
        p = os.path.join(COQ, rel)
        if not os.path.exists(p):
            continue
        src = strip_coq_comments(open(p, encoding="utf-8").read())
        depth = 0
        for ln, line in enumerate(src.splitlines(), 1):
            s = line.strip()
            if re.match(r"^Section\s+\w+", s):
                depth += 1
            for m in FORBIDDEN.finditer(line):
                w = m.group(1)
                if w in ("Variable", "Variables", "Hypothesis", "Hypotheses") and depth > 0:
                    continue
                bad.append("%s:%d: %s" % (rel, ln, w))
            if re.match(r"^End\s+\w+\s*\.", s) and depth > 0:
                depth -= 1
    return bad


ALLOWED_AXIOMS = set()  # by name; extended per property module if a library axiom is knowingly used


def theorems_of(prop):
    p = os.path.join(COQ, "theories", "Props", prop + ".v")
    src = strip_coq_comments(open(p, encoding="utf-8").read())
    return re.findall(r"^\s*(?:Theorem|Corollary)\s+([A-Za-z0-9_']+)", src, re.M)


def audit_assumptions(prop, allowed=()):
    """Compile a tiny file that prints the assumptions of every theorem of Props/<prop>.v."""
    thms = theorems_of(prop)
    os.makedirs(WORK, exist_ok=True)
    name = "Audit_%s_%d" % (prop, os.getpid())
    path = os.path.join(WORK, name + ".v")
    with open(path, "w") as f:
        f.write("From EDP Require Import Props.%s.\n" % prop)
        for t in thms:
            f.write('Print Assumptions %s.\n' % t)
    rc, out, err = sh(["coqc", "-Q", os.path.join(COQ, "theories"), "EDP", "-noglob", path], cwd=WORK, timeout=600)
    for ext in (".v", ".vo", ".vok", ".vos", ".glob"):
        with contextlib.suppress(FileNotFoundError):
            os.remove(os.path.join(WORK, name + ext))
    with contextlib.suppress(FileNotFoundError):
        os.remove(os.path.join(WORK, "." + name + ".aux"))
    if rc != 0:
        return thms, None, (out + err)[-1500:]
    # split output per theorem: each Print Assumptions prints either "Closed under the global context"
    # or "Axioms:" followed by indented entries
    blocks = re.split(r"(?=Closed under the global context|Axioms:)", out)
    blocks = [b for b in blocks if b.strip()]
    res = {}
    problems = []
    if len(blocks) != len(thms):
        problems.append("could not parse Print Assumptions output (%d blocks for %d theorems)" % (len(blocks), len(thms)))
    for t, b in zip(thms, blocks):
        if b.startswith("Closed"):
            res[t] = []
        else:
            names = re.findall(r"^([A-Za-z0-9_.']+)\s*:", b, re.M)
            res[t] = names
            for n in names:
                if n not in ALLOWED_AXIOMS and n not in allowed:
                    problems.append("%s depends on non-allow-listed axiom %s" % (t, n))
    return thms, res, "; ".join(problems) if problems else None


# ------------------------------------------------------------------------------------------
# runners

def harness_build(timeout=1500):
    with flock("cargo"):
        lock = os.path.join(HARNESS, "Cargo.lock")
        if not os.path.exists(lock):
            shutil.copy(os.path.join(REPO, "Cargo.lock"), lock)
        try:
            rc, out, err = sh(["cargo", "build", "--offline"], cwd=HARNESS, timeout=timeout)
        except subprocess.TimeoutExpired:
            return False, "cargo build timed out"
    return rc == 0, (out + err)[-3000:]


def extract_build(model_targets, timeout=900):
    ok, logtxt, failing = coq_build(model_targets)
    if not ok:
        return False, "model does not compile: %s\n%s" % (failing, logtxt)
    with flock("coq"):
        srcs = [os.path.join(COQ, "extract", "Extract.v"), os.path.join(COQ, "extract", "driver.ml")] + \
               [os.path.join(COQ, t[:-1]) for t in model_targets]
        newest = max(os.path.getmtime(s) for s in srcs if os.path.exists(s))
        vos = [os.path.join(COQ, t) for t in model_targets]
        newest = max([newest] + [os.path.getmtime(v) for v in vos if os.path.exists(v)])
        if os.path.exists(MODEL_BIN) and os.path.getmtime(MODEL_BIN) >= newest:
            return True, "cached"
        rc, out, err = sh(["sh", os.path.join(COQ, "extract", "build.sh")], timeout=timeout)
    return rc == 0, (out + err)[-3000:]


def run_lines(binary, domain, cases, timeout=1200, shards=None):
    """Feed cases (list of str) to `binary domain`; returns list of output lines (same length).
    Sharded over processes; a crashed shard is re-run case by case to attribute the crash."""
    if not cases:
        return []
    shards = shards or min(int(NPROC), max(1, len(cases) // 50))
    chunks = [cases[i::shards] for i in range(shards)]
    procs = []
    for ch in chunks:
        p = subprocess.Popen(["sh", "-c", 'ulimit -s unlimited 2>/dev/null || ulimit -s 1000000 2>/dev/null; exec "$0" "$1"', binary, domain],
                             stdin=subprocess.PIPE, stdout=subprocess.PIPE,
                             stderr=subprocess.DEVNULL, text=True, env=ENV)
        procs.append(p)
    import threading
    outs = [None] * shards

    def feed(i):
        try:
            o, _ = procs[i].communicate("\n".join(chunks[i]) + "\n", timeout=timeout)
            outs[i] = (procs[i].returncode, o)
        except subprocess.TimeoutExpired:
            procs[i].kill()
            outs[i] = (-9, "")
    ths = [threading.Thread(target=feed, args=(i,)) for i in range(shards)]
    for t in ths:
        t.start()
    for t in ths:
        t.join()
    res = [None] * len(cases)
    for i, (rc, o) in enumerate(outs):
        lines = o.split("\n")
        if lines and lines[-1] == "":
            lines.pop()
        if rc == 0 and len(lines) == len(chunks[i]):
            for j, l in enumerate(lines):
                res[i + j * shards] = l
        else:
            # attribute: run one by one
            for j, c in enumerate(chunks[i]):
                try:
                    p = subprocess.run(["sh", "-c", 'ulimit -s unlimited 2>/dev/null || ulimit -s 1000000 2>/dev/null; exec "$0" "$1"', binary, domain],
                                       input=c + "\n", capture_output=True, text=True, timeout=120, env=ENV)
                    l = p.stdout.strip().split("\n")[0] if p.returncode == 0 and p.stdout.strip() else "CRASH rc=%d" % p.returncode
                except subprocess.TimeoutExpired:
                    l = "TIMEOUT"
                res[i + j * shards] = l
    return res


def run_both(domain, cases):
    impl = run_lines(HARNESS_BIN, domain, cases)
    model = run_lines(MODEL_BIN, domain, cases)
    return impl, model


# ------------------------------------------------------------------------------------------
# known findings

def known_findings(prop):
    p = os.path.join(VERIF, "known_findings.json")
    if not os.path.exists(p):
        return []
    data = json.load(open(p))
    return [k for k in data.get("findings", []) if k["property"] == prop]


# ------------------------------------------------------------------------------------------
# evidence / replay

def write_replay(prop, payload):
    os.makedirs(os.path.join(EVID, "replays"), exist_ok=True)
    h = hashlib.sha256(json.dumps(payload, sort_keys=True).encode()).hexdigest()[:12]
    path = os.path.join(EVID, "replays", "%s-%s.json" % (prop, h))
    with open(path, "w") as f:
        json.dump(payload, f, indent=1)
    return path


def write_evidence(prop, tier, seed, coverage, assumptions, wall, violations):
    os.makedirs(EVID, exist_ok=True)
    ev = {"property_id": prop, "tier": tier, "seed": seed, "level": "proof", "coverage": coverage,
          "assumptions": assumptions, "wall_s": round(wall, 2), "violations": violations}
    with open(os.path.join(EVID, prop + ".json"), "w") as f:
        json.dump(ev, f, indent=1)


class Ctx:
    """Per-run context handed to property modules."""
    def __init__(self, prop, tier, seed):
        self.prop, self.tier, self.seed = prop, tier, seed
        self.rng = random.Random(seed)
        self.amplify = 1
        self.notes = []


def first_n(xs, n):
    return xs[:n]
