(* MD5 (RFC 1321) as an executable function on byte lists, used by the model runner to produce the handshake
   digests; validated against the md-5 crate by the correspondence run.  The handshake theorems treat the hash as an
   arbitrary function (a Section variable): nothing is claimed about its cryptographic strength. *)
From EDP Require Import Base.Bytes.

Definition m32 : N := 4294967296.
Definition add32 (a b : N) : N := (a + b) mod m32.
Definition not32 (a : N) : N := 4294967295 - a.
Definition rotl32 (x : N) (c : N) : N := (N.lor (N.shiftl x c) (N.shiftr x (32 - c))) mod m32.

Definition md5_s : list N :=
  [7; 12; 17; 22; 7; 12; 17; 22; 7; 12; 17; 22; 7; 12; 17; 22;
   5; 9; 14; 20; 5; 9; 14; 20; 5; 9; 14; 20; 5; 9; 14; 20;
   4; 11; 16; 23; 4; 11; 16; 23; 4; 11; 16; 23; 4; 11; 16; 23;
   6; 10; 15; 21; 6; 10; 15; 21; 6; 10; 15; 21; 6; 10; 15; 21].

Definition md5_k : list N :=
  [3614090360; 3905402710; 606105819; 3250441966; 4118548399; 1200080426; 2821735955; 4249261313;
   1770035416; 2336552879; 4294925233; 2304563134; 1804603682; 4254626195; 2792965006; 1236535329;
   4129170786; 3225465664; 643717713; 3921069994; 3593408605; 38016083; 3634488961; 3889429448;
   568446438; 3275163606; 4107603335; 1163531501; 2850285829; 4243563512; 1735328473; 2368359562;
   4294588738; 2272392833; 1839030562; 4259657740; 2763975236; 1272893353; 4139469664; 3200236656;
   681279174; 3936430074; 3572445317; 76029189; 3654602809; 3873151461; 530742520; 3299628645;
   4096336452; 1126891415; 2878612391; 4237533241; 1700485571; 2399980690; 4293915773; 2240044497;
   1873313359; 4264355552; 2734768916; 1309151649; 4149444226; 3174756917; 718787259; 3951481745].

Fixpoint words_le (bs : bytes) (k : nat) : list N :=
  match k with
  | O => []
  | S k' => match bs with
            | a :: b :: c :: d :: r => (a + 256 * b + 65536 * c + 16777216 * d) :: words_le r k'
            | _ => []
            end
  end.

Definition md5_round (i : N) (st : N * N * N * N) (m : list N) : N * N * N * N :=
  let '(a, b, c, d) := st in
  let '(f, g) :=
    if i <? 16 then (N.lor (N.land b c) (N.land (not32 b) d), i)
    else if i <? 32 then (N.lor (N.land d b) (N.land (not32 d) c), (5 * i + 1) mod 16)
    else if i <? 48 then (N.lxor (N.lxor b c) d, (3 * i + 5) mod 16)
    else (N.lxor c (N.lor b (not32 d)), (7 * i) mod 16) in
  let f' := add32 (add32 (add32 f a) (nth (N.to_nat i) md5_k 0)) (nth (N.to_nat g) m 0) in
  (d, add32 b (rotl32 f' (nth (N.to_nat i) md5_s 0)), b, c).

Definition md5_block (h : N * N * N * N) (block : bytes) : N * N * N * N :=
  let m := words_le block 16 in
  let '(a0, b0, c0, d0) := h in
  let '(a, b, c, d) := fold_left (fun st i => md5_round (N.of_nat i) st m) (seq 0 64) h in
  (add32 a0 a, add32 b0 b, add32 c0 c, add32 d0 d).

Fixpoint md5_blocks (fuel : nat) (h : N * N * N * N) (bs : bytes) : N * N * N * N :=
  match fuel with
  | O => h
  | S f => match bs with
           | [] => h
           | _ => md5_blocks f (md5_block h (firstn 64 bs)) (skipn 64 bs)
           end
  end.

Definition md5_pad (msg : bytes) : bytes :=
  let l := length msg in
  let zeros := (Nat.modulo (119 - Nat.modulo l 64) 64)%nat in
  msg ++ [128] ++ repeat 0 zeros ++ le 8 (8 * N.of_nat l).

Definition md5 (msg : bytes) : bytes :=
  let p := md5_pad msg in
  let '(a, b, c, d) := md5_blocks (S (length p / 64)) (1732584193, 4023233417, 2562383102, 271733878) p in
  le 4 a ++ le 4 b ++ le 4 c ++ le 4 d.
