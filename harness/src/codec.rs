//! domain `codec`: encode / decode / decode_borrowed / conversions.
//! cases:
//!   `enc <term>`        -> `ok <hex> w=<same|diff>` | `err <kind>`
//!   `rt <term>`         -> `enc=<hex>|err:<k> dec=<term>|err:<k> re=<same|hex|err:k>`   (fields separated by ` ; `)
//!   `dec <hex> ...`     -> `ok <term>` | `err <kind>`            (anything after the hex is for the model only)
//!   `decb <hex> ...`    -> `b=ok <term>|err <kind>@<off> ; o=ok <term>|err <kind>`
//!   `conv <ops> <hex>`  -> decode, apply c(lone) b(orrowed From<&Owned>) o(to_owned) m(ove) ..., re-encode -> `ok <hex>`|`err`
use crate::termio::{Toks, read_term, term_str};
use crate::util::{hex, unhex};
use erltf::errors::{DecodeError, EncodeError};
use erltf::{BorrowedTerm, OwnedTerm};

pub fn dkind(e: &DecodeError) -> String {
    match e {
        DecodeError::UnexpectedEof => "eof".into(),
        DecodeError::InvalidVersion { .. } => "tag".into(),
        DecodeError::TrailingData(n) => format!("trailing:{n}"),
        DecodeError::InvalidFormat(s) => match s.as_str() {
            "validation failed" => "verify".into(),
            "size limit exceeded" => "toolarge".into(),
            "Char" => "char".into(),
            "Float" => "float".into(),
            "Fail" => "fail".into(),
            other => format!("format({other})"),
        },
        other => format!("other({other:?})"),
    }
}

pub fn ekind(e: &EncodeError) -> String {
    let s = format!("{e:?}");
    s.split(|c: char| !c.is_alphanumeric()).next().unwrap_or("?").to_string()
}

fn enc_str(t: &OwnedTerm) -> String {
    match erltf::encode(t) {
        Ok(b) => hex(&b),
        Err(e) => format!("err:{}", ekind(&e)),
    }
}

pub fn run_case(line: &str) -> String {
    let (op, rest) = line.split_once(' ').unwrap_or((line, ""));
    match op {
        "enc" => {
            let t = read_term(&mut Toks::new(rest));
            match erltf::encode(&t) {
                Ok(b) => {
                    let mut w: Vec<u8> = Vec::new();
                    let same = erltf::encoder::encode_to_writer(&t, &mut w).is_ok() && w == b;
                    format!("ok {} w={}", hex(&b), if same { "same" } else { "diff" })
                }
                Err(e) => format!("err {}", ekind(&e)),
            }
        }
        "encw" => {
            // a history of encode_to_writer calls on one thread: `W<limit> <term> | W<limit> <term> ...` (limit -1 = a writer
            // that takes everything; otherwise the writer fails once more than <limit> bytes have been offered)
            struct Limited {
                buf: Vec<u8>,
                limit: i64,
            }
            impl std::io::Write for Limited {
                fn write(&mut self, data: &[u8]) -> std::io::Result<usize> {
                    if self.limit >= 0 && (self.buf.len() + data.len()) as i64 > self.limit {
                        let room = (self.limit as usize).saturating_sub(self.buf.len());
                        if room == 0 {
                            return Err(std::io::Error::new(std::io::ErrorKind::Other, "full"));
                        }
                        self.buf.extend_from_slice(&data[..room]);
                        return Ok(room);
                    }
                    self.buf.extend_from_slice(data);
                    Ok(data.len())
                }
                fn flush(&mut self) -> std::io::Result<()> {
                    Ok(())
                }
            }
            let mut outs = Vec::new();
            for item in rest.split(" | ") {
                let (w, tt) = item.split_once(' ').expect("encw item");
                let limit: i64 = w[1..].parse().expect("limit");
                let t = read_term(&mut Toks::new(tt));
                let mut wr = Limited { buf: Vec::new(), limit };
                let r = erltf::encoder::encode_to_writer(&t, &mut wr);
                outs.push(match (erltf::encode(&t), r) {
                    (Err(e), Err(_)) => format!("err {}", ekind(&e)),
                    (Err(_), Ok(())) => "DIFF writer-ok-encode-err".to_string(),
                    (Ok(b), Ok(())) => {
                        if wr.buf == b {
                            "ok same".to_string()
                        } else {
                            format!("DIFF {}", hex(&wr.buf))
                        }
                    }
                    (Ok(b), Err(_)) => {
                        if limit >= 0 && (b.len() as i64) > limit {
                            "werr".to_string()
                        } else {
                            "DIFF writer-err".to_string()
                        }
                    }
                });
            }
            outs.join(" | ")
        }
        "rt" => {
            let t = read_term(&mut Toks::new(rest));
            let tin = term_str(&t);
            match erltf::encode(&t) {
                Err(e) => format!("in={} ; enc=err:{}", tin, ekind(&e)),
                Ok(b) => match erltf::decode(&b) {
                    Err(e) => format!("in={} ; enc={} ; dec=err:{}", tin, hex(&b), dkind(&e)),
                    Ok(d) => {
                        let re = enc_str(&d);
                        format!(
                            "in={} ; enc={} ; dec={} ; re={}",
                            tin,
                            hex(&b),
                            term_str(&d),
                            if re == hex(&b) { "same".to_string() } else { re }
                        )
                    }
                },
            }
        }
        "dec" => {
            let h = rest.split_whitespace().next().unwrap_or(".");
            match erltf::decode(&unhex(h)) {
                Ok(t) => format!("ok {}", term_str(&t)),
                Err(e) => format!("err {}", dkind(&e)),
            }
        }
        "dech" => {
            // a history of decode calls on one thread: `<hex>,<hex>,...` (whatever one call leaves behind must not
            // reach the next); `T` in front of an element: decode_with_trailing
            let h = rest.split_whitespace().next().unwrap_or(".");
            h.split(',')
                .map(|x| {
                    if let Some(y) = x.strip_prefix('B') {
                        match erltf::decode_borrowed(&unhex(y)) {
                            Ok(t) => format!("ok {}", term_str(&t.to_owned())),
                            Err(e) => format!("err {}", dkind(&e.error)),
                        }
                    } else if let Some(y) = x.strip_prefix('T') {
                        match erltf::decoder::decode_with_trailing(&unhex(y)) {
                            Ok((t, r)) => format!("ok {} rest={}", term_str(&t), hex(r)),
                            Err(e) => format!("err {}", dkind(&e)),
                        }
                    } else {
                        match erltf::decode(&unhex(x)) {
                            Ok(t) => format!("ok {}", term_str(&t)),
                            Err(e) => format!("err {}", dkind(&e)),
                        }
                    }
                })
                .collect::<Vec<_>>()
                .join(" ;; ")
        }
        "decb" => {
            let h = rest.split_whitespace().next().unwrap_or(".");
            let data = unhex(h);
            let b = match erltf::decode_borrowed(&data) {
                Ok(t) => format!("ok {}", term_str(&t.to_owned())),
                Err(e) => format!("err {}@{}", dkind(&e.error), if e.context.byte_offset <= data.len() { "in".to_string() } else { format!("OUT({})", e.context.byte_offset) }),
            };
            let o = match erltf::decode(&data) {
                Ok(t) => format!("ok {}", term_str(&t)),
                Err(e) => format!("err {}", dkind(&e)),
            };
            format!("b={b} ; o={o}")
        }
        "dec2" | "decb2" | "dect2" | "deca2" | "decf2" | "decr2" | "decc2" | "decg2" => {
            // C02: run the entry point on a 2 MiB stack (tokio worker default) and measure allocation requests
            let h = rest.split_whitespace().next().unwrap_or(".").to_string();
            let data = unhex(&h);
            let op = op.to_string();
            let th = std::thread::Builder::new().stack_size(2 * 1024 * 1024).spawn(move || {
                crate::alloc::reset();
                let r = std::panic::catch_unwind(|| match op.as_str() {
                    "dec2" => match erltf::decode(&data) {
                        Ok(_) => "ok".to_string(),
                        Err(e) => format!("err {}", dkind(&e)),
                    },
                    "decb2" => match erltf::decode_borrowed(&data) {
                        Ok(_) => "ok".to_string(),
                        Err(e) => format!("err {}", dkind(&e.error)),
                    },
                    "dect2" => match erltf::decoder::decode_with_trailing(&data) {
                        Ok((_, r)) => format!("ok rest={}", r.len()),
                        Err(e) => format!("err {}", dkind(&e)),
                    },
                    "deca2" => {
                        let mut cache = erltf::AtomCache::new();
                        match erltf::decode_with_atom_cache(&data, &mut cache) {
                            Ok(_) => "ok".to_string(),
                            Err(e) => format!("err {}", dkind(&e)),
                        }
                    }
                    "decr2" => match erltf::decoder::decode_raw_term(if data.is_empty() { &data } else { &data[1..] }) {
                        Ok(_) => "ok".to_string(),
                        Err(e) => format!("err {}", dkind(&e)),
                    },
                    "decc2" => match erltf::decoder::decode_with_cache(&data) {
                        Ok((_, None)) => "ok".to_string(),
                        Ok((_, Some((_, r)))) => format!("ok rest={}", r.len()),
                        Err(e) => format!("err {}", dkind(&e)),
                    },
                    "decg2" => match erltf::decoder::decode_fragment_cont(&data) {
                        Ok(((s, f), r)) => format!("ok {} {} rest={}", s, f, r.len()),
                        Err(e) => format!("err {}", dkind(&e)),
                    },
                    _ => match erltf::decoder::decode_fragment_header(&data) {
                        Ok((hd, r)) => format!("ok {} {} {} rest={}", hd.sequence_id, hd.fragment_id, hd.num_atom_cache_refs, r.len()),
                        Err(e) => format!("err {}", dkind(&e)),
                    },
                });
                let maxreq = crate::alloc::max_request();
                let total = crate::alloc::total_requested();
                (r, maxreq, total, data.len())
            }).unwrap();
            match th.join() {
                Ok((r, maxreq, total, n)) => {
                    let out = match r { Ok(s) => s, Err(_) => "PANIC".to_string() };
                    format!("{out} ; maxreq={maxreq} total={total} len={n}")
                }
                Err(_) => "PANIC(thread)".to_string(),
            }
        }
        "hdr" => {
            // encode_with_dist_header_multi on one or two terms, then the library's own reader on the result
            let parts: Vec<&str> = rest.split(" | ").collect();
            let terms: Vec<OwnedTerm> = parts.iter().map(|p| read_term(&mut Toks::new(p))).collect();
            let refs: Vec<&OwnedTerm> = terms.iter().collect();
            match erltf::encoder::encode_with_dist_header_multi(&refs) {
                Err(e) => format!("enc=err:{}", ekind(&e)),
                Ok(b) => {
                    let mut cache = erltf::AtomCache::new();
                    let selfdec = match erltf::decode_with_atom_cache(&b, &mut cache) {
                        Ok((c, p)) => format!("{} | {}", term_str(&c), p.map(|x| term_str(&x)).unwrap_or_else(|| "-".to_string())),
                        Err(e) => format!("err {}", dkind(&e)),
                    };
                    // the thin wrappers must agree with the entry points they wrap
                    let mut wrap = String::new();
                    if terms.len() == 1 {
                        match erltf::encoder::encode_with_dist_header(&terms[0]) {
                            Ok(b1) => {
                                // the set's iteration order may differ between two calls: compare what the bytes decode to
                                let mut c1 = erltf::AtomCache::new();
                                let d1 = erltf::decode_with_atom_cache(&b1, &mut c1).map(|(c, _)| term_str(&c)).unwrap_or_else(|e| format!("err {}", dkind(&e)));
                                if b1.len() != b.len() || format!("{d1} | -") != selfdec {
                                    wrap.push_str(" wrapper:encode_with_dist_header-differs");
                                }
                            }
                            Err(_) => wrap.push_str(" wrapper:encode_with_dist_header-fails"),
                        }
                    }
                    match erltf::decoder::decode_with_cache(&b) {
                        Ok((c, rest)) => {
                            let got = format!("{} | {}", term_str(&c), rest.map(|(x, _)| term_str(&x)).unwrap_or_else(|| "-".to_string()));
                            if got != selfdec {
                                wrap.push_str(" wrapper:decode_with_cache-differs");
                            }
                        }
                        Err(_) => {
                            if !selfdec.starts_with("err") {
                                wrap.push_str(" wrapper:decode_with_cache-fails");
                            }
                        }
                    }
                    format!("enc={} ; self={}{}", hex(&b), selfdec, wrap)
                }
            }
        }
        "hdrh" => {
            // a history of header-writer calls on one thread (a refused message before accepted ones)
            rest.split(" || ").map(|r| run_case(&format!("hdr {r}"))).collect::<Vec<_>>().join(" ;; ")
        }
        "hdrdec" => {
            // a history of messages decoded with one atom cache
            let mut cache = erltf::AtomCache::new();
            let mut out = Vec::new();
            for h in rest.split(',') {
                let data = unhex(h.trim());
                out.push(match erltf::decode_with_atom_cache(&data, &mut cache) {
                    Ok((c, p)) => format!("ok {} | {}", term_str(&c), p.map(|x| term_str(&x)).unwrap_or_else(|| "-".to_string())),
                    Err(e) => format!("err {}", dkind(&e)),
                });
            }
            out.join(" ;; ")
        }
        "inflate" => {
            // the zlib oracle handed to the model: what flate2 makes of these bytes (plain bytes, consumed input)
            use std::io::Read;
            let data = unhex(rest.split_whitespace().next().unwrap_or("."));
            let mut d = flate2::read::ZlibDecoder::new(&data[..]);
            let mut out = Vec::new();
            match d.by_ref().take(1 << 22).read_to_end(&mut out) {
                Ok(_) => format!("ok {} {}", hex(&out), d.total_in()),
                Err(_) => "err".to_string(),
            }
        }
        "dect" => {
            let h = rest.split_whitespace().next().unwrap_or(".");
            match erltf::decoder::decode_with_trailing(&unhex(h)) {
                Ok((t, r)) => format!("ok {} rest={}", term_str(&t), hex(r)),
                Err(e) => format!("err {}", dkind(&e)),
            }
        }
        "convh" => {
            let mut it = rest.split_whitespace();
            let _ops = it.next().unwrap();
            let data = unhex(it.next().unwrap());
            match erltf::decode(&data) {
                Ok(t) => match erltf::encoder::encode_with_dist_header(&t.clone()) {
                    Ok(b) => format!("ok {}", hex(&b)),
                    Err(e) => format!("ok err:{}", ekind(&e)),
                },
                Err(e) => format!("err {}", dkind(&e)),
            }
        }
        "conv" => {
            let mut it = rest.split_whitespace();
            let ops = it.next().unwrap();
            let data = unhex(it.next().unwrap());
            let mut t = match erltf::decode(&data) {
                Ok(t) => t,
                Err(e) => return format!("err {}", dkind(&e)),
            };
            for c in ops.chars() {
                t = match c {
                    'c' => t.clone(),
                    'b' => {
                        let bt = BorrowedTerm::from(&t);
                        bt.to_owned()
                    }
                    'o' => {
                        let bt = BorrowedTerm::from(&t);
                        let bt2 = bt.clone();
                        drop(bt);
                        bt2.to_owned()
                    }
                    'm' => {
                        let boxed = Box::new(t);
                        *boxed
                    }
                    'v' => {
                        let v = vec![t];
                        v.into_iter().next().unwrap()
                    }
                    _ => t,
                };
            }
            format!("ok {}", enc_str(&t))
        }
        _ => panic!("bad op"),
    }
}
