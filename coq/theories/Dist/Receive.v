(* Connection::receive_message (crates/edp_client/src/connection.rs, after fix commit a22584b): what one frame does
   to the connection's receive state (atom cache, fragment assembler) and what it makes the call return.
   Composes the models of the decoder (Codec/Decode), the distribution header reader (Codec/DistHeader), the fragment
   assembler (Dist/Fragment) and the control message parser (Dist/Control).  Definitions only. *)
From EDP Require Import Base.Bytes Term.Term Gen.Tags Gen.FragConsts Gen.FramingConsts Gen.ControlTable Codec.Decode Codec.DistHeader
  Dist.Fragment Dist.Control Dist.Framing.

Record rstate := { r_cache : list (N * bytes); r_asm : asm }.
Definition rstate_init : rstate := {| r_cache := []; r_asm := [] |}.

(* what a frame makes receive_message do: return a message, return an error, or read the next frame *)
Inductive outcome := ODeliver (m : cmsg) (payload : option term) | OError | OContinue.

Definition pass_through : N := 112.

(* decoder::decode_with_trailing: version byte, one term, the rest *)
Definition decode_trailing (cfg : dcfg) (data : bytes) : option (term * bytes) :=
  match data with
  | [] => None
  | v :: r =>
      if v =? tag_version then
        match parse cfg (length r + 2 + d_extra_fuel cfg) r with
        | POk t rest => Some (t, rest)
        | PErr _ => None
        end
      else None
  end.

Definition to_outcome (ctl : term) (payload : option term) : outcome :=
  match from_term control_table ctl with
  | COk m => ODeliver m payload
  | CErr _ => OError
  end.

Definition with_cache (st : rstate) (c : list (N * bytes)) : rstate := {| r_cache := c; r_asm := r_asm st |}.
Definition with_asm (st : rstate) (a : asm) : rstate := {| r_cache := r_cache st; r_asm := a |}.

Definition is_tagged (tag : N) (data : bytes) : bool :=
  match data with v :: t :: _ => (v =? tag_version) && (t =? tag) | _ => false end.

(* a message that arrived with a distribution header: the connection's cache is read and updated *)
Definition decode_dist (cfg : dcfg) (st : rstate) (data : bytes) : rstate * outcome :=
  let '(out, cache') := decode_with_atom_cache (cfg_with_cache cfg (r_cache st) []) long_of_coded data in
  (with_cache st cache',
   match out with
   | HDOk ctl pl => to_outcome ctl pl
   | _ => OError
   end).

(* decode_complete_fragment *)
Definition decode_complete (cfg : dcfg) (st : rstate) (data : bytes) : rstate * outcome :=
  if is_tagged tag_dist_header data then decode_dist cfg st data
  else (st, match decode cfg data with DOk t => to_outcome t None | _ => OError end).

Definition handle_frame (cfg : dcfg) (st : rstate) (data : bytes) : rstate * outcome :=
  match data with
  | [] => (st, OContinue)                                            (* tick *)
  | b0 :: rest0 =>
      if is_tagged dist_frag_header data then
        (* decode_fragment_header: version, tag, sequence id (8), fragment id (8), count (1) *)
        match rd_be 8 (skipn 2 data) with
        | Some (seq, r1) =>
            match rd_be 8 r1 with
            | Some (fid, r2) =>
                match r2 with
                | n :: remaining =>
                    if len remaining <? n then (st, OError)
                    else
                      let cache_data := if 0 <? n then Some (firstn (N.to_nat n) remaining) else None in
                      let payload := skipn (N.to_nat n) remaining in
                      let '(a', r) := asm_start (r_asm st) seq fid cache_data payload 0 in
                      match r with
                      | Some complete => decode_complete cfg (with_asm st a') complete
                      | None => (with_asm st a', OContinue)
                      end
                | [] => (st, OError)
                end
            | None => (st, OError)
            end
        | None => (st, OError)
        end
      else if is_tagged dist_frag_cont data then
        match rd_be 8 (skipn 2 data) with
        | Some (seq, r1) =>
            match rd_be 8 r1 with
            | Some (fid, remaining) =>
                let '(a', r) := asm_add (r_asm st) seq fid remaining 0 in
                match r with
                | Some complete => decode_complete cfg (with_asm st a') complete
                | None => (with_asm st a', OContinue)
                end
            | None => (st, OError)
            end
        | None => (st, OError)
        end
      else if b0 =? pass_through then
        match decode_trailing cfg rest0 with
        | Some (ctl, []) => (st, to_outcome ctl None)
        | Some (ctl, remaining) =>
            match decode_trailing cfg remaining with
            | Some (msg, _) => (st, to_outcome ctl (Some msg))
            | None => (st, OError)
            end
        | None => (st, OError)
        end
      else if is_tagged tag_dist_header data then decode_dist cfg st data
      else (st, match decode cfg data with DOk t => to_outcome t None | _ => OError end)
  end.

(* one call of receive_message over a transport: frames are read until one produces a result *)
Inductive rresult := RMsg (m : cmsg) (payload : option term) | RFail | REof | RTooLarge.

Fixpoint receive (fuel : nat) (cfg : dcfg) (st : rstate) (cs : list chunk) : rresult * rstate * list chunk :=
  match fuel with
  | O => (REof, st, cs)
  | S f =>
      let '(r, cs', _) := read_framed Distribution cs in
      match r with
      | RErr Eof => (REof, st, cs')
      | RErr TooLarge => (RTooLarge, st, cs')
      | ROk data =>
          let '(st', o) := handle_frame cfg st data in
          match o with
          | ODeliver m pl => (RMsg m pl, st', cs')
          | OError => (RFail, st', cs')
          | OContinue => receive f cfg st' cs'
          end
      end
  end.

(* ---------- the receive path of a connection whose read half was taken ----------
   Connection::receive_message_from_read_half (used by the node's receiver task): its own reading of the length prefix
   with the connection's size limit, pass-through frames only, no receive state *)
Definition handle_frame_half (cfg : dcfg) (data : bytes) : outcome :=
  match data with
  | [] => OContinue
  | b0 :: rest0 =>
      if b0 =? pass_through then
        match decode_trailing cfg rest0 with
        | Some (ctl, []) => to_outcome ctl None
        | Some (ctl, remaining) =>
            match decode_trailing cfg remaining with
            | Some (msg, _) => to_outcome ctl (Some msg)
            | None => OError
            end
        | None => OError
        end
      else OError
  end.

Definition read_framed_half (cs : list chunk) : rres * list chunk :=
  match read_exact 4 cs with
  | None => (RErr Eof, [])
  | Some (p, r) =>
      let l := unbe p in
      if l =? 0 then (ROk [], r)
      else if conn_max_message_size <? l then (RErr TooLarge, r)
      else match read_exact l r with
           | None => (RErr Eof, [])
           | Some (b, r') => (ROk b, r')
           end
  end.

Fixpoint receive_half (fuel : nat) (cfg : dcfg) (cs : list chunk) : rresult * list chunk :=
  match fuel with
  | O => (REof, cs)
  | S f =>
      let '(r, cs') := read_framed_half cs in
      match r with
      | RErr Eof => (REof, cs')
      | RErr TooLarge => (RTooLarge, cs')
      | ROk data =>
          match handle_frame_half cfg data with
          | ODeliver m pl => (RMsg m pl, cs')
          | OError => (RFail, cs')
          | OContinue => receive_half f cfg cs'
          end
      end
  end.
