//! Text format for terms shared by the generator (Python), this harness and the model runner (OCaml).
use crate::util::{hex, unhex};
use erltf::OwnedTerm;
use erltf::types::{Atom, BigInt, ExternalFun, ExternalPid, ExternalPort, ExternalReference, InternalFun};
use std::collections::BTreeMap;

pub struct Toks<'a> {
    it: std::str::SplitWhitespace<'a>,
}

impl<'a> Toks<'a> {
    pub fn new(s: &'a str) -> Self {
        Toks { it: s.split_whitespace() }
    }
    pub fn next(&mut self) -> &'a str {
        self.it.next().expect("token")
    }
    pub fn peek_done(&mut self) -> bool {
        self.it.clone().next().is_none()
    }
    pub fn num<T: std::str::FromStr>(&mut self) -> T
    where
        T::Err: std::fmt::Debug,
    {
        self.next().parse::<T>().expect("number")
    }
}

fn atom(t: &mut Toks) -> Atom {
    Atom::new(String::from_utf8(unhex(t.next())).expect("utf8 atom"))
}

fn loc(t: &mut Toks) -> Option<Vec<u8>> {
    let s = t.next();
    if s == "-" { None } else { Some(unhex(s)) }
}

fn pid_fields(t: &mut Toks) -> ExternalPid {
    let node = atom(t);
    let id: u32 = t.num();
    let serial: u32 = t.num();
    let creation: u32 = t.num();
    match loc(t) {
        None => ExternalPid::new(node, id, serial, creation),
        Some(l) => ExternalPid::with_local_ext_bytes(node, id, serial, creation, l),
    }
}

pub fn read_term(t: &mut Toks) -> OwnedTerm {
    match t.next() {
        "a" => OwnedTerm::Atom(atom(t)),
        "i" => OwnedTerm::Integer(t.num()),
        "f" => OwnedTerm::Float(f64::from_bits(u64::from_str_radix(t.next(), 16).unwrap())),
        "p" => OwnedTerm::Pid(pid_fields(t)),
        "o" => {
            let node = atom(t);
            let id: u64 = t.num();
            let creation: u32 = t.num();
            OwnedTerm::Port(match loc(t) {
                None => ExternalPort::new(node, id, creation),
                Some(l) => ExternalPort::with_local_ext_bytes(node, id, creation, l),
            })
        }
        "r" => {
            let node = atom(t);
            let creation: u32 = t.num();
            let n: usize = t.num();
            let ids: Vec<u32> = (0..n).map(|_| t.num()).collect();
            OwnedTerm::Reference(match loc(t) {
                None => ExternalReference::new(node, creation, ids),
                Some(l) => ExternalReference::with_local_ext_bytes(node, creation, ids, l),
            })
        }
        "b" => OwnedTerm::Binary(unhex(t.next())),
        "B" => {
            let bytes = unhex(t.next());
            let bits: u8 = t.num();
            OwnedTerm::BitBinary { bytes, bits }
        }
        "s" => OwnedTerm::String(String::from_utf8(unhex(t.next())).expect("utf8 string")),
        "l" => {
            let n: usize = t.num();
            OwnedTerm::List((0..n).map(|_| read_term(t)).collect())
        }
        "L" => {
            let n: usize = t.num();
            let elements = (0..n).map(|_| read_term(t)).collect();
            let tail = Box::new(read_term(t));
            OwnedTerm::ImproperList { elements, tail }
        }
        "m" => {
            let n: usize = t.num();
            let mut m = BTreeMap::new();
            for _ in 0..n {
                let k = read_term(t);
                let v = read_term(t);
                m.insert(k, v);
            }
            OwnedTerm::Map(m)
        }
        "t" => {
            let n: usize = t.num();
            OwnedTerm::Tuple((0..n).map(|_| read_term(t)).collect())
        }
        "g" => {
            let neg = t.next() == "1";
            OwnedTerm::BigInt(BigInt::new(neg, unhex(t.next())))
        }
        "e" => {
            let m = atom(t);
            let f = atom(t);
            let a: u8 = t.num();
            OwnedTerm::ExternalFun(ExternalFun::new(m, f, a))
        }
        "u" => {
            let arity: u8 = t.num();
            let uniq_v = unhex(t.next());
            let mut uniq = [0u8; 16];
            uniq.copy_from_slice(&uniq_v);
            let index: u32 = t.num();
            let num_free: u32 = t.num();
            let module = atom(t);
            let old_index: u32 = t.num();
            let old_uniq: u32 = t.num();
            let pid = pid_fields(t);
            let n: usize = t.num();
            let free: Vec<OwnedTerm> = (0..n).map(|_| read_term(t)).collect();
            OwnedTerm::InternalFun(Box::new(InternalFun::new(
                arity, uniq, index, num_free, module, old_index, old_uniq, pid, free,
            )))
        }
        "n" => OwnedTerm::Nil,
        x => panic!("bad term token {x}"),
    }
}

fn show_loc(l: &Option<bytes::Bytes>) -> String {
    match l {
        None => "-".to_string(),
        Some(b) => hex(b),
    }
}

fn show_pid_fields(p: &ExternalPid, out: &mut String) {
    out.push_str(&format!(
        "{} {} {} {} {}",
        hex(p.node.as_str().as_bytes()),
        p.id,
        p.serial,
        p.creation,
        show_loc(&p.local_ext_bytes)
    ));
}

pub fn show_term(t: &OwnedTerm, out: &mut String) {
    match t {
        OwnedTerm::Atom(a) => out.push_str(&format!("a {}", hex(a.as_str().as_bytes()))),
        OwnedTerm::Integer(i) => out.push_str(&format!("i {i}")),
        OwnedTerm::Float(f) => out.push_str(&format!("f {:016x}", f.to_bits())),
        OwnedTerm::Pid(p) => {
            out.push_str("p ");
            show_pid_fields(p, out)
        }
        OwnedTerm::Port(p) => out.push_str(&format!(
            "o {} {} {} {}",
            hex(p.node.as_str().as_bytes()),
            p.id,
            p.creation,
            show_loc(&p.local_ext_bytes)
        )),
        OwnedTerm::Reference(r) => {
            out.push_str(&format!("r {} {} {}", hex(r.node.as_str().as_bytes()), r.creation, r.ids.len()));
            for i in &r.ids {
                out.push_str(&format!(" {i}"));
            }
            out.push_str(&format!(" {}", show_loc(&r.local_ext_bytes)));
        }
        OwnedTerm::Binary(b) => out.push_str(&format!("b {}", hex(b))),
        OwnedTerm::BitBinary { bytes, bits } => out.push_str(&format!("B {} {}", hex(bytes), bits)),
        OwnedTerm::String(s) => out.push_str(&format!("s {}", hex(s.as_bytes()))),
        OwnedTerm::List(l) => {
            out.push_str(&format!("l {}", l.len()));
            for x in l {
                out.push(' ');
                show_term(x, out);
            }
        }
        OwnedTerm::ImproperList { elements, tail } => {
            out.push_str(&format!("L {}", elements.len()));
            for x in elements {
                out.push(' ');
                show_term(x, out);
            }
            out.push(' ');
            show_term(tail, out);
        }
        OwnedTerm::Map(m) => {
            out.push_str(&format!("m {}", m.len()));
            for (k, v) in m {
                out.push(' ');
                show_term(k, out);
                out.push(' ');
                show_term(v, out);
            }
        }
        OwnedTerm::Tuple(l) => {
            out.push_str(&format!("t {}", l.len()));
            for x in l {
                out.push(' ');
                show_term(x, out);
            }
        }
        OwnedTerm::BigInt(b) => out.push_str(&format!("g {} {}", if b.sign.is_negative() { 1 } else { 0 }, hex(&b.digits))),
        OwnedTerm::ExternalFun(f) => out.push_str(&format!(
            "e {} {} {}",
            hex(f.module.as_str().as_bytes()),
            hex(f.function.as_str().as_bytes()),
            f.arity
        )),
        OwnedTerm::InternalFun(f) => {
            out.push_str(&format!(
                "u {} {} {} {} {} {} {} ",
                f.arity,
                hex(&f.uniq),
                f.index,
                f.num_free,
                hex(f.module.as_str().as_bytes()),
                f.old_index,
                f.old_uniq
            ));
            show_pid_fields(&f.pid, out);
            out.push_str(&format!(" {}", f.free_vars.len()));
            for x in &f.free_vars {
                out.push(' ');
                show_term(x, out);
            }
        }
        OwnedTerm::Nil => out.push('n'),
    }
}

pub fn term_str(t: &OwnedTerm) -> String {
    let mut s = String::new();
    show_term(t, &mut s);
    s
}
