#!/usr/bin/env python3
"""keep_mutant.py <ID> <letter> <caught-by text>: copies /tmp/mut/out/<ID>/<letter> into /verif/seeded/<ID>-<letter>/"""
import json, os, shutil, sys
pid, letter, caught = sys.argv[1], sys.argv[2], sys.argv[3]
src = "/tmp/mut/out/%s/%s" % (pid, letter)
dst = "/verif/seeded/%s-%s" % (pid, letter)
os.makedirs(dst, exist_ok=True)
for f in ("patch.diff", "demo.rs", "confirm.log"):
    if os.path.exists(os.path.join(src, f)):
        shutil.copy(os.path.join(src, f), os.path.join(dst, f))
meta = json.load(open(os.path.join(src, "meta.json")))
meta["breaks_property"] = pid
meta["confirmed"] = open(os.path.join(src, "confirm.log")).read().strip().splitlines()[-1] if os.path.exists(os.path.join(src, "confirm.log")) else "not confirmed"
meta["check_result"] = caught
json.dump(meta, open(os.path.join(dst, "meta.json"), "w"), indent=1)
print("kept", dst)
