(* C16 — allocated pids and references are unique.  Only property theorems here. *)
From EDP Require Import Base.Bytes Gen.PidConsts Gen.LockScope Dist.PidAlloc Dist.PidAllocFacts Conc.Interleave Conc.AllocConc.
From EDP Require Codec.Decode Node.Node Node.CreationFacts Node.OwnIdFacts.
From EDP Require Conc.RefConc Dist.StartFacts.

(* Any number k <= MAX_PROCESSES_PER_NODE * 2^32 (= 2^52 on the pinned tree) of consecutive allocations,
   started from ANY valid counter position (any id in 1..MAX incl. the wrap point, any serial below 2^63,
   in particular just before the serial's 32-bit wrap), yields pairwise distinct pids. *)
Theorem C16_seq_unique : forall k st, wf st -> N.of_nat k <= M * two32 -> NoDup (allocs k st).
Proof. exact allocs_nodup. Qed.

(* the k-th pid is a closed-form function of the allocator's position *)
Theorem C16_alloc_closed_form : forall k st, 1 <= next_id st <= M -> next_serial st + N.of_nat k < two64 ->
  allocs k st = map (fun j => pid_at (creation st) (pos st + N.of_nat j)) (seq 0 k).
Proof. exact allocs_pos. Qed.

(* exhaustion of the id space advances the serial instead of re-issuing a number *)
Theorem C16_wrap_advances_serial : forall st, next_id st = M -> next_serial st + 1 < two64 ->
  p_serial (fst (allocate st)) = (next_serial st + 1) mod two32
  /\ next_id (snd (allocate st)) = 1 /\ next_serial (snd (allocate st)) = next_serial st + 1.
Proof. exact wrap_advances. Qed.

(* every pid carries the creation in force *)
Theorem C16_creation : forall k st p, In p (allocs k st) -> p_creation p = creation st.
Proof. exact allocs_creation. Qed.

(* references: k calls hand out 3k consecutive counter words; distinct while 3k <= 2^32 *)
(* ... and on a started node the creation in force is the node's: Node::start hands the creation the port mapper assigned
   on to the allocator (re-read from node.rs by the translator); the model's node_init does the same *)
Theorem C16_started_node_passes_its_creation_on : node_start_sets_allocator_creation = 1.
Proof. reflexivity. Qed.

(* on the node model: no operation and no inbound frame changes the creation the allocator stamps, so a process spawned
   anywhere along a run of a node started with creation c has an identifier of creation c *)
Theorem C16_node_creation_never_changes : forall cfg ops st,
  creation (Node.n_alloc (Node.run cfg st ops)) = creation (Node.n_alloc st).
Proof. exact CreationFacts.run_creation. Qed.

Theorem C16_spawned_pid_carries_the_node_creation : forall cfg name c conn ops st' pid,
  Node.step cfg (Node.run cfg (Node.node_init name c conn) ops) Node.OSpawn = (st', Node.UPid pid) -> Term.pcreation pid = c.
Proof. exact CreationFacts.spawned_pid_carries_the_creation. Qed.

(* ... and stays so: every process the node holds, at any point of any run (spawns, links, monitors, deliveries, exits,
   inbound frames, calls), is identified by the node's own name and the creation the node was started with *)
Theorem C16_live_processes_have_own_identifiers : forall name c cfg conn ops x,
  In x (Node.n_procs (Node.run cfg (Node.node_init name c conn) ops)) ->
  Term.pnode (Node.pp x) = name /\ Term.pcreation (Node.pp x) = c.
Proof. exact OwnIdFacts.live_processes_have_own_identifiers. Qed.

(* Node::start sets the creation of the allocator the node already has: identifiers handed out before it (reply addresses
   of calls made on a node not yet started) and after it are numbered by one sequence — all j + k numbers (id, serial)
   differ, whatever creation the port mapper hands out, the placeholder included — and those after it carry that creation *)
Theorem C16_start_keeps_the_numbering : forall j k c st, wf st -> N.of_nat (j + k) <= M * two32 ->
  NoDup (map StartFacts.num (allocs j st ++ allocs k (StartFacts.set_creation c (after j st)))).
Proof. exact StartFacts.start_keeps_the_numbering. Qed.

Theorem C16_after_start_creation : forall j k c st p,
  In p (allocs k (StartFacts.set_creation c (after j st))) -> p_creation p = c.
Proof. exact StartFacts.after_start_creation. Qed.

Example C16_start_example :
  let st0 := {| next_id := initial_next_id; next_serial := 0; creation := 1 |} in
  wf st0 /\ map StartFacts.num (allocs 2 st0 ++ allocs 2 (StartFacts.set_creation 1 (after 2 st0))) = [(1, 0); (2, 0); (3, 0); (4, 0)].
Proof. cbv zeta. split; [unfold wf, M; vm_compute; repeat split; discriminate|vm_compute; reflexivity]. Qed.

Theorem C16_refs_unique : forall k c, c < two32 -> 3 * N.of_nat k <= two32 -> NoDup (refs k c).
Proof. exact refs_nodup. Qed.

(* non-vacuity: the hypotheses are met at the wrap point just before the serial's 32-bit wrap *)
Example C16_example :
  wf {| next_id := 1048575; next_serial := 4294967295; creation := 7 |} /\
  allocs 4 {| next_id := 1048575; next_serial := 4294967295; creation := 7 |} =
   [ {| p_id := 1048575; p_serial := 4294967295; p_creation := 7 |};
     {| p_id := 1048576; p_serial := 0; p_creation := 7 |};
     {| p_id := 1; p_serial := 0; p_creation := 7 |};
     {| p_id := 2; p_serial := 0; p_creation := 7 |} ].
Proof. split; [unfold wf, M, max_processes_per_node; cbn; lia|vm_compute; reflexivity]. Qed.

(* ---- under any interleaving ----
   allocate: every load and store of the function body is its own atomic step, any number of tasks make any number
   of calls, the scheduler is arbitrary; the lock held across the body (checked on the source by the translator) makes
   the identifiers handed out exactly those of the sequential allocator, whoever made the calls and in whatever order *)
Theorem C16_concurrent_allocations_sequential : forall prog schedule a0, all_alloc prog ->
  exists k, (k <= length schedule)%nat /\
    outs (exec (trace _ (run _ (start _ prog) schedule)) a0) = outs a0 ++ allocs k (mem a0).
Proof. exact allocations_are_sequential. Qed.

Theorem C16_concurrent_pids_unique : forall prog schedule st0, all_alloc prog -> wf st0 ->
  N.of_nat (length schedule) <= M * two32 ->
  NoDup (outs (exec (trace _ (run _ (start _ prog) schedule)) {| mem := st0; rid := 0; rser := 0; outs := [] |})).
Proof. exact concurrent_pids_unique. Qed.

Theorem C16_allocate_holds_its_lock : forallb snd lock_sites = true.
Proof. exact allocate_holds_its_lock. Qed.

(* make_reference takes no lock: three separate fetch_adds per reference.  Any number of tasks, any schedule of their
   individual fetch_adds, fewer than 2^32 of them in total: every number handed out is handed out once, so the
   references — finished or still being built — are pairwise different, and each finished one has its three numbers *)
Theorem C16_concurrent_references_unique : forall c0 ntasks schedule, c0 < two32 -> N.of_nat (length schedule) <= two32 ->
  let s := RefConc.run (RefConc.start c0 ntasks) schedule in
  NoDup (RefConc.all_ids s) /\ NoDup (RefConc.all_refs s) /\ Forall (fun r => length r = 3%nat) (RefConc.all_refs s).
Proof. exact RefConc.references_unique. Qed.

(* the interleaving is real: two tasks alternating their fetch_adds across the counter's wrap *)
Example C16_interleaved_references :
  RefConc.all_refs (RefConc.run (RefConc.start 4294967294 2) [0; 1; 0; 1; 0; 1]%nat) = [[4294967294; 0; 2]; [4294967295; 1; 3]].
Proof. vm_compute. reflexivity. Qed.

Check C16_seq_unique : forall k st, wf st -> N.of_nat k <= M * two32 -> NoDup (allocs k st).
