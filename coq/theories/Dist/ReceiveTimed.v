(* The clock of the node's receiver (node.rs spawn_receiver_task over Connection::receive_message_from_read_half): every
   wait — for a length prefix, for a frame body — has its own deadline of T; a tick is a complete (empty) frame, so it
   ends one wait and the next begins afresh.  There is no deadline across frames: a peer that keeps ticking keeps the
   receiver alive for any length of time.  The receiver stops at the first wait that lasts T, at end of stream and at an
   over-long length; a frame whose content cannot be used is skipped. *)
From EDP Require Import Base.Bytes Term.Term Gen.FramingConsts Gen.Limits Codec.Decode Dist.Control Dist.Framing Dist.Receive.
Open Scope N_scope.

(* what the peer does next, as the receiver's clock sees it: a whole frame whose 4-byte prefix is complete `wp` after
   the receiver began to wait for it and whose body is complete `wb` after that; or the end of the stream after `w` *)
Inductive arrival := AFrame (wp wb : N) (body : bytes) | AClose (w : N).

Inductive stop := SNone (* still receiving: nothing further was scripted *) | STimeout | SEof | STooLarge.

(* the receiver task: what it routes, in order, and why it stopped (then the connection is deregistered) *)
Fixpoint task_run (T : N) (cfg : dcfg) (l : list arrival) : list (cmsg * option term) * stop :=
  match l with
  | [] => ([], SNone)
  | AClose w :: _ => ([], if T <=? w then STimeout else SEof)
  | AFrame wp wb body :: r =>
      if T <=? wp then ([], STimeout)
      else if len body =? 0 then task_run T cfg r
      else if conn_max_message_size <? len body then ([], STooLarge)
      else if T <=? wb then ([], STimeout)
      else match handle_frame_half cfg body with
           | ODeliver m pl => let '(ms, s) := task_run T cfg r in ((m, pl) :: ms, s)
           | _ => task_run T cfg r
           end
  end.

(* the same stream without a clock *)
Fixpoint task_untimed (cfg : dcfg) (bodies : list bytes) : list (cmsg * option term) * stop :=
  match bodies with
  | [] => ([], SNone)
  | body :: r =>
      if len body =? 0 then task_untimed cfg r
      else if conn_max_message_size <? len body then ([], STooLarge)
      else match handle_frame_half cfg body with
           | ODeliver m pl => let '(ms, s) := task_untimed cfg r in ((m, pl) :: ms, s)
           | _ => task_untimed cfg r
           end
  end.

Definition prompt (T : N) (a : arrival) : bool := match a with AFrame wp wb _ => (wp <? T) && (wb <? T) | AClose _ => false end.
Definition body_of (a : arrival) : bytes := match a with AFrame _ _ b => b | AClose _ => [] end.
Definition tick (w : N) : arrival := AFrame w 0 [].

(* every wait shorter than T: the clock never matters, however long the whole stream takes *)
Theorem no_deadline_across_frames T cfg l : forallb (prompt T) l = true -> task_run T cfg l = task_untimed cfg (map body_of l).
Proof.
  induction l as [|a l IH]; intros H; [reflexivity|]. cbn [forallb] in H. apply andb_prop in H as [Ha Hl].
  destruct a as [wp wb body|w]; [|discriminate Ha]. cbn [prompt] in Ha. apply andb_prop in Ha as [H1 H2].
  apply N.ltb_lt in H1, H2. cbn [task_run map body_of task_untimed].
  replace (T <=? wp) with false by (symmetry; apply N.leb_gt; exact H1).
  destruct (len body =? 0); [exact (IH Hl)|]. destruct (conn_max_message_size <? len body); [reflexivity|].
  replace (T <=? wb) with false by (symmetry; apply N.leb_gt; exact H2).
  rewrite (IH Hl). reflexivity.
Qed.

(* a quiet period of any number of ticks, each arriving before its own deadline, changes nothing *)
Theorem ticks_keep_it_alive T cfg ws l : forallb (fun w => w <? T) ws = true -> task_run T cfg (map tick ws ++ l) = task_run T cfg l.
Proof.
  induction ws as [|w ws IH]; intros H; [reflexivity|]. cbn [forallb] in H. apply andb_prop in H as [Hw Hr].
  apply N.ltb_lt in Hw. cbn [map app tick task_run]. replace (T <=? w) with false by (symmetry; apply N.leb_gt; exact Hw).
  change (len (@nil N) =? 0) with true. cbv iota. exact (IH Hr).
Qed.

(* a wait that lasts T ends the receiver: nothing after it is routed *)
Theorem a_silent_wait_stops T cfg wp wb body r : T <= wp -> task_run T cfg (AFrame wp wb body :: r) = ([], STimeout).
Proof. intros H. cbn [task_run]. replace (T <=? wp) with true by (symmetry; apply N.leb_le; exact H). reflexivity. Qed.

(* ten seconds of deadline, a peer ticking every second for an hour, then a frame: the frame is handled *)
Example an_hour_of_ticks cfg body :
  task_run 10000 cfg (map tick (repeat 1000 3600) ++ [AFrame 5 5 body]) = task_run 10000 cfg [AFrame 5 5 body].
Proof. apply ticks_keep_it_alive. apply forallb_forall. intros x Hx. apply repeat_spec in Hx. subst x. reflexivity. Qed.
