(* C14 — distribution headers and the atom cache.
   Stage reached: executable models of the writer (parameterised by the HashSet order) and of the reader with the
   per-connection cache, tied to the code by three correspondence flows (writer bytes reproduced by the model for the
   order found in them; reader compared on spec-sender histories; spec reader as oracle).  Theorems: limits and
   structure of the writer for all inputs; the reader reads every header of the writer back as the writer's atom list
   and every message as the terms that were written (any count 1..255, even or odd, short or long atoms, any terms
   the plain round trip covers); reader/cache behaviour on histories of a foreign sender is checked by evaluation on
   witnesses and by the correspondence run (partial). *)
From EDP Require Import Base.Bytes Term.Term Gen.Tags Gen.DecoderArms Codec.Encode Codec.Decode Codec.Norm Codec.DistHeader
  Codec.RoundTripC Codec.DistHeaderFacts Codec.AtomCache Codec.AtomCacheFacts Order.Cmp.

(* beyond the header's limit of 255 references encoding reports an error, whatever the terms *)
Theorem C14_too_many_atoms : forall order ts, 255 < len order -> encode_multi order ts = HTooManyAtoms (len order).
Proof.
  intros order ts H. unfold encode_multi. destruct order as [|a r]; [unfold len in H; cbn in H; lia|].
  replace (255 <? len (a :: r)) with true by (symmetry; now apply N.ltb_lt). reflexivity.
Qed.

(* without atoms there is no header: version byte followed by the plain encodings *)
Theorem C14_no_atoms_no_header : forall ts b, enc_terms_c [] ts = EOk b -> encode_multi [] ts = HOk (tag_version :: b).
Proof. intros ts b H. unfold encode_multi. now rewrite H. Qed.

(* with atoms: 131, 68, the count, count/2+1 flag bytes, then the entries and the terms *)
Lemma set_nthb_length k f : forall l, length (set_nthb k f l) = length l.
Proof. induction k as [|k IH]; intros [|x l]; cbn [set_nthb length]; try reflexivity. now rewrite IH. Qed.

Lemma flags_fold_length idxs : forall l,
  length (fold_left (fun fl idx => set_nthb (idx / 2) (fun x => N.lor x (if Nat.even idx then 8 else 128)) fl) idxs l) = length l.
Proof. induction idxs as [|i idxs IH]; intros l; cbn [fold_left]; [reflexivity|]. now rewrite IH, set_nthb_length. Qed.

Theorem C14_header_prefix : forall a r ts b, len (a :: r) <= 255 -> existsb (fun x => 65535 <? len x) (a :: r) = false ->
  enc_terms_c (a :: r) ts = EOk b ->
  exists flags rest, encode_multi (a :: r) ts = HOk (tag_version :: tag_dist_header :: len (a :: r) :: flags ++ rest)
                     /\ length flags = (length (a :: r) / 2 + 1)%nat.
Proof.
  intros a r ts b Hl Hlong Hb. unfold encode_multi.
  match goal with |- context [if ?c then HTooManyAtoms _ else _] => destruct c eqn:E end; [apply N.ltb_lt in E; unfold bytes in *; lia|].
  match goal with |- context [if ?c then HErr EAtomTooLarge else _] => replace c with false by (symmetry; exact Hlong) end. rewrite Hb.
  eexists. eexists. split; [reflexivity|].
  unfold header_flags. rewrite flags_fold_length.
  destruct (existsb (fun a0 : list N => 255 <? len a0) (a :: r)); [rewrite set_nthb_length|]; apply repeat_length.
Qed.

(* an atom that does not fit the entry's length field is an error, not a truncated length (fix commit 3fde240) *)
Theorem C14_oversized_atom_is_an_error : forall order ts, order <> [] -> len order <= 255 ->
  existsb (fun x => 65535 <? len x) order = true -> encode_multi order ts = HErr EAtomTooLarge.
Proof.
  intros order ts Hne Hl Hlong. unfold encode_multi. destruct order as [|a r]; [contradiction|].
  match goal with |- context [if ?c then HTooManyAtoms _ else _] => destruct c eqn:E end; [apply N.ltb_lt in E; unfold bytes in *; lia|].
  match goal with |- context [if ?c then HErr EAtomTooLarge else _] => replace c with true by (symmetry; exact Hlong) end. reflexivity.
Qed.

(* a cached atom is written as ATOM_CACHE_REF with its header position *)
Theorem C14_atom_becomes_ref : forall order a i, atom_index a order 0 = Some i -> enc_c order (TAtom a) = EOk [tag_atom_cache_ref; i mod 256].
Proof. intros order a i H. cbn [enc_c]. unfold enc_atom_c. now rewrite H. Qed.

Definition cfg0 : dcfg :=
  {| d_arms := owned_arms; d_cache := []; d_refs := []; d_inflate := fun _ => None; d_float_text := fun _ => None;
     d_kcmp := cmp_owned; d_kinsert := map_insert; d_extra_fuel := 0 |}.

(* the library's own reader reads back what the writer wrote (witness with an odd count and a long atom: the case
   that was wrong before fix commit 18678dc) *)
Example C14_self_roundtrip_odd_long :
  let long := repeat 76 300 in
  let ts := [TTuple [TInt 2; TAtom long; TAtom [111; 107]; TAtom [120]]; TList [TAtom [111; 107]]] in
  match encode_multi [[120]; long; [111; 107]] ts with
  | HOk b => fst (decode_with_atom_cache cfg0 long_of_coded b) = HDOk (TTuple [TInt 2; TAtom long; TAtom [111; 107]; TAtom [120]]) (Some (TList [TAtom [111; 107]]))
  | _ => False
  end.
Proof. vm_compute. reflexivity. Qed.

(* a sender history that creates an entry in segment 3, then refers to it from a later header at another position,
   then overwrites the slot: every reference resolves to the atom the sender meant (fix commit 2cc4438) *)
Example C14_history_reuse_overwrite :
  let m1 := [131; 68; 1; 11; 7; 2; 111; 107; 82; 0] in                (* new entry seg 3 idx 7 = ok ; term = ref 0 *)
  let m2 := [131; 68; 2; 56; 0; 9; 1; 120; 7; 104; 2; 82; 0; 82; 1] in  (* new seg 0 idx 9 = x ; existing seg 3 idx 7 ; {ref0, ref1} *)
  let m3 := [131; 68; 1; 11; 7; 1; 122; 82; 0] in                       (* overwrite seg 3 idx 7 = z *)
  let '(o1, c1) := decode_with_atom_cache cfg0 long_of_coded m1 in
  let '(o2, c2) := decode_with_atom_cache (cfg_with_cache cfg0 c1 []) long_of_coded m2 in
  let '(o3, _) := decode_with_atom_cache (cfg_with_cache cfg0 c2 []) long_of_coded m3 in
  o1 = HDOk (TAtom [111; 107]) None /\ o2 = HDOk (TTuple [TAtom [120]; TAtom [111; 107]]) None /\ o3 = HDOk (TAtom [122]) None.
Proof. vm_compute. repeat split. Qed.

(* every term the encoder accepts, written with any atom map, is read back through the header's reference list as the
   same term (up to the representation changes of the plain round trip, C01): cached atoms by position, others in full *)
Theorem C14_terms_read_back_with_references : forall cfg order kc ki t,
  d_arms cfg = owned_arms -> d_refs cfg = order -> len order <= 256 -> d_kcmp cfg = kc -> d_kinsert cfg = ki ->
  wf t = true -> rt_ok kc ki t ->
  exists b, enc_c order t = EOk b /\ (0 < length b)%nat /\
    forall f rest, (length b < f)%nat -> parse cfg f (b ++ rest) = POk (norm t) rest.
Proof. intros cfg order kc ki t Ha Hr Hl Hk Hi. exact (roundtrip_c cfg Ha order Hr Hl kc ki Hk Hi t). Qed.

(* the reader takes the writer's header for exactly the writer's atoms: references in header order, cache slots
   0..n-1 of segment 0 filled, the LongAtoms bit found where the writer put it for even and for odd counts *)
Theorem C14_header_read_back : forall cfg order body,
  order <> [] -> len order <= 255 -> Forall (fun a => utf8_valid a = true) order ->
  existsb (fun a => 65535 <? len a) order = false ->
  decode_with_atom_cache cfg long_of_coded (tag_version :: tag_dist_header :: header_bytes order ++ body) =
    after_hdr cfg (length (header_bytes order ++ body) + 3 + d_extra_fuel cfg) (new_cache order (d_cache cfg)) order body.
Proof. exact header_read_back. Qed.

(* the library's own decoder reads a message of the library's own encoder back identically: control alone, and
   control with payload; whatever the connection's cache held before *)
Theorem C14_message_read_back : forall cfg kc ki order ctl pl,
  d_arms cfg = owned_arms -> d_kcmp cfg = kc -> d_kinsert cfg = ki ->
  order <> [] -> len order <= 255 -> Forall (fun a => utf8_valid a = true) order ->
  existsb (fun a => 65535 <? len a) order = false ->
  wf ctl = true -> rt_ok kc ki ctl -> wf pl = true -> rt_ok kc ki pl ->
  (exists bs, encode_multi order [ctl] = HOk bs /\
     decode_with_atom_cache cfg long_of_coded bs = (HDOk (norm ctl) None, new_cache order (d_cache cfg))) /\
  (exists bs, encode_multi order [ctl; pl] = HOk bs /\
     decode_with_atom_cache cfg long_of_coded bs = (HDOk (norm ctl) (Some (norm pl)), new_cache order (d_cache cfg))).
Proof.
  intros cfg kc ki order ctl pl Ha Hk Hi Hne Hl Hu Hb Hw Hok Hwp Hokp. split.
  - exact (message_read_back_1 cfg Ha kc ki Hk Hi order Hne Hl Hu Hb ctl Hw Hok).
  - exact (message_read_back_2 cfg Ha kc ki Hk Hi order Hne Hl Hu Hb ctl pl Hw Hok Hwp Hokp).
Qed.

(* the premises are met: 255 atoms of which one is long (odd count, LongAtoms), a message over them *)
Example C14_read_back_premises :
  let order := repeat 76 300 :: map (fun i => [97; 48 + N.of_nat i mod 64; 48 + N.of_nat i / 64]) (seq 0 254) in
  order <> [] /\ len order = 255 /\ forallb utf8_valid order = true /\ existsb (fun a => 65535 <? len a) order = false /\
  wf (TTuple [TInt 2; TAtom (repeat 76 300); TAtom [97; 55; 48]]) = true.
Proof. cbv zeta. split; [discriminate|]. vm_compute. repeat split. Qed.

(* a header of a conforming foreign sender (new entries and references to older ones in any of the eight segments, at
   any header position; long or short length fields): the reader's reference list is the list of atoms the sender
   meant, and its cache follows the sender's *)
Theorem C14_sender_header_read : forall cfg sc es long l body,
  agree (d_cache cfg) sc -> (length es <= 255)%nat -> Forall (e_ok long) es -> meant sc es = Some l ->
  decode_with_atom_cache cfg long_of_coded (tag_version :: tag_dist_header :: sender_header es long ++ body) =
    after_hdr cfg (length (sender_header es long ++ body) + 3 + d_extra_fuel cfg) (fold_left push es (d_cache cfg)) l body.
Proof. exact sender_header_read. Qed.

(* every history of such messages on one connection: each message is read as the terms the sender encoded, every
   cached-atom reference resolved to the atom the sender meant — creation, re-use in later messages, overwrites *)
Theorem C14_history_resolved : forall cfg kc ki ms rc sc,
  d_arms cfg = owned_arms -> d_kcmp cfg = kc -> d_kinsert cfg = ki ->
  agree rc sc -> history_ok kc ki sc ms ->
  exists frames, sender_run sc ms = Some frames /\
    reader_run cfg rc frames = map (fun m => HDOk (norm (m_ctl m)) (option_map norm (m_pl m))) ms.
Proof. intros cfg kc ki ms rc sc Ha Hk Hi. exact (history_read cfg Ha kc ki Hk Hi ms rc sc). Qed.

(* the premises are met by the history of the witness above: create in segment 3, refer to it from another
   position next to a new entry, overwrite the slot *)
Definition hist3 : list smsg :=
  [ {| m_es := [ENew 3 7 [111; 107]]; m_long := false; m_ctl := TAtom [111; 107]; m_pl := None |};
    {| m_es := [ENew 0 9 [120]; EOld 3 7]; m_long := false; m_ctl := TTuple [TAtom [120]; TAtom [111; 107]]; m_pl := None |};
    {| m_es := [ENew 3 7 [122]]; m_long := false; m_ctl := TAtom [122]; m_pl := None |} ].
Ltac c14_nle := vm_compute; discriminate.
Ltac c14_nlt := vm_compute; reflexivity.
Ltac c14_conj := repeat match goal with |- _ /\ _ => split end.
Example C14_history_premises :
  history_ok cmp_owned map_insert [] hist3 /\
  sender_run [] hist3 = Some [[131; 68; 1; 11; 7; 2; 111; 107; 82; 0]; [131; 68; 2; 56; 0; 9; 1; 120; 7; 104; 2; 82; 0; 82; 1];
                              [131; 68; 1; 11; 7; 1; 122; 82; 0]].
Proof.
  split; [|vm_compute; reflexivity].
  cbn [history_ok hist3]. unfold conform, terms_of. cbn [m_es m_long m_ctl m_pl length fold_left push].
  c14_conj; try exact I; try lia.
  all: try match goal with |- meant _ _ <> None => vm_compute; discriminate end.
  all: repeat match goal with |- Forall _ _ => constructor end; c14_conj.
  all: try match goal with |- wf _ = true => vm_compute; reflexivity end.
  all: try match goal with |- e_ok _ _ => cbn [e_ok]; unfold atom_fits; c14_conj; try c14_nlt; try c14_nle; try (intros _; c14_nle) end.
  all: cbn [rt_ok]; unfold atom_ok; c14_conj; try exact I; try c14_nle.
Qed.

Check C14_too_many_atoms.
