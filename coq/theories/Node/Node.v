(* The node layer (crates/edp_node: node.rs, registry.rs, process.rs, mailbox.rs), after fix commits 84e81b9
   (names go with the process), e365bbf (no pending entry after a failed send) and 375429f (receiver survives
   unusable content): local processes with their registry, links and monitors; remote calls with the pending table;
   the receiver task with its routing.  One operation of the model is one API call (or one inbound frame) run to
   quiescence: every mailbox is drained before the next operation.  Definitions only. *)
From Coq Require Import String.
From EDP Require Import Base.Bytes Term.Term Gen.Tags Gen.ControlTable Gen.FramingConsts Order.Cmp Codec.Encode Codec.Decode
  Gen.PidConsts Dist.PidAlloc Dist.Control Dist.Framing Dist.Receive Dist.Send Elixir.Wrap.
Open Scope N_scope.

(* ExternalPid equality: node, id, serial, creation (the node-local bytes are not compared) *)
Definition pid_eqb (a b : pidr) : bool :=
  eq_bytes (pnode a) (pnode b) && (pnum a =? pnum b) && (pserial a =? pserial b) && (pcreation a =? pcreation b).
(* derived equality of references, by evaluation of their term form *)
Definition ref_eqb (a b : term) : bool := teqb a b.

(* what a process handler is handed *)
Inductive lmsg :=
| MRegular (body : term)
| MExit (from : pidr) (reason : term)
| MMonitorExit (monitored : pidr) (reference : term) (reason : term).

Record proc := { pp : pidr; plinks : list pidr; pmons : list (pidr * term); pevents : list lmsg }.

Inductive rpcres := RReply (body : term) | RTimeout | RNotConnected | RSendFailed.

Record nstate := {
  n_name : bytes;
  n_alloc : pstate;
  n_refctr : N;
  n_procs : list proc;               (* by_pid: the live processes *)
  n_names : list (bytes * pidr);     (* by_name *)
  n_gone : list proc;                (* terminated processes, kept for the events they recorded *)
  n_pending : list (pidr * (N * bool)); (* pending_rpcs: reply pid -> call number, short timeout? *)
  n_results : list (N * rpcres);     (* calls that have returned *)
  n_calls : N;                       (* calls started so far *)
  n_connected : bool;                (* the connection to the peer is registered *)
  n_wrote : list bytes               (* frames written to the peer, in order *)
}.

Definition n_crash := Eval compute in str "crash"%string.
Definition n_error := Eval compute in str "error"%string.
Definition n_rex := Eval compute in str "rex"%string.
Definition n_call := Eval compute in str "call"%string.
Definition n_user := Eval compute in str "user"%string.

Definition mk_pid (name : bytes) (p : PidAlloc.pid) : pidr :=
  {| pnode := name; pnum := p_id p; pserial := p_serial p; pcreation := p_creation p; ploc := None |}.

Definition set_procs (st : nstate) (ps : list proc) : nstate :=
  {| n_name := n_name st; n_alloc := n_alloc st; n_refctr := n_refctr st; n_procs := ps; n_names := n_names st; n_gone := n_gone st;
     n_pending := n_pending st; n_results := n_results st; n_calls := n_calls st; n_connected := n_connected st; n_wrote := n_wrote st |}.

Fixpoint find_proc (p : pidr) (ps : list proc) : option proc :=
  match ps with [] => None | x :: r => if pid_eqb (pp x) p then Some x else find_proc p r end.
Fixpoint update_proc (p : pidr) (f : proc -> proc) (ps : list proc) : list proc :=
  match ps with [] => [] | x :: r => if pid_eqb (pp x) p then f x :: r else x :: update_proc p f r end.
Definition add_event (m : lmsg) (x : proc) : proc :=
  {| pp := pp x; plinks := plinks x; pmons := pmons x; pevents := pevents x ++ [m] |}.
Fixpoint remove_proc (p : pidr) (ps : list proc) : list proc :=
  match ps with [] => [] | x :: r => if pid_eqb (pp x) p then r else x :: remove_proc p r end.

(* the instrumented handler: records the message; fails (so the process terminates) on the atom crash *)
Definition crashes (m : lmsg) : bool :=
  match m with MRegular (TAtom a) => eq_bytes a n_crash | _ => false end.

(* propagate_exit_signals, then registry.remove: notifications go to the live processes only *)
Definition terminate (st : nstate) (x : proc) : nstate :=
  let reason := TAtom n_error in
  let ps1 := fold_left (fun ps l => update_proc l (add_event (MExit (pp x) reason)) ps) (plinks x) (n_procs st) in
  let ps2 := fold_left (fun ps mr => update_proc (fst mr) (add_event (MMonitorExit (pp x) (snd mr) reason)) ps) (pmons x) ps1 in
  {| n_name := n_name st; n_alloc := n_alloc st; n_refctr := n_refctr st;
     n_procs := remove_proc (pp x) ps2;
     n_names := filter (fun np => negb (pid_eqb (snd np) (pp x))) (n_names st);
     n_gone := n_gone st ++ [x];       (* notices addressed to the terminating process itself are never handled *)
     n_pending := n_pending st; n_results := n_results st; n_calls := n_calls st; n_connected := n_connected st; n_wrote := n_wrote st |}.

(* hand a message to a live process; false = no such process *)
Definition deliver (st : nstate) (p : pidr) (m : lmsg) : nstate * bool :=
  match find_proc p (n_procs st) with
  | None => (st, false)
  | Some _ =>
      let st1 := set_procs st (update_proc p (add_event m) (n_procs st)) in
      if crashes m then
        match find_proc p (n_procs st1) with Some x => (terminate st1 x, true) | None => (st1, true) end
      else (st1, true)
  end.

Fixpoint lookup_name (name : bytes) (ns : list (bytes * pidr)) : option pidr :=
  match ns with [] => None | (n, p) :: r => if eq_bytes n name then Some p else lookup_name name r end.

Definition add_unique_pid (p : pidr) (l : list pidr) : list pidr := if existsb (pid_eqb p) l then l else l ++ [p].

(* ---------- operations ---------- *)
Inductive op :=
| OSpawn
| ORegister (name : bytes) (p : pidr)
| OUnregister (name : bytes)
| OWhereis (name : bytes)
| OSend (to : pidr) (msg : term)
| OSendName (name : bytes) (msg : term)
| OLink (a b : pidr)
| OUnlink (a b : pidr)
| OMonitor (a b : pidr)
| ODemonitor (a b : pidr) (reference : term)
| ORpc (short : bool) (module function : bytes) (args : list term)   (* start one remote call; it stays pending *)
| OExpire                                              (* the timeout of every pending short-timeout call fires *)
| OFrame (data : bytes)                                (* one frame body arrives from the peer *)
| OOverlong                                            (* a length prefix above the maximum message size arrives *)
| OPeerClose                                           (* the peer closes the stream *)
(* operations toward a process on the connected node (Node::send / link / demonitor with a remote pid): one frame *)
| ORemote (o : sop)
| ORemoteUnlink (a b : pidr)                           (* Node::unlink: the unlink id is the next value of the reference counter *)
| ORemoteMonitor (a b : pidr).                         (* Node::monitor: a fresh reference, then the frame *)

Inductive out :=
| UOk | UErr | UPid (p : pidr) | UNone | URef (r : term) | UUnit.

Definition make_reference (st : nstate) : term * N :=
  let '(ids, c) := make_ref (n_refctr st) in
  (TRef (n_name st) (creation (n_alloc st)) ids None, c).

Definition with_refctr (st : nstate) (c : N) : nstate :=
  {| n_name := n_name st; n_alloc := n_alloc st; n_refctr := c; n_procs := n_procs st; n_names := n_names st; n_gone := n_gone st;
     n_pending := n_pending st; n_results := n_results st; n_calls := n_calls st; n_connected := n_connected st; n_wrote := n_wrote st |}.

Definition with_wrote (st : nstate) (w : list bytes) : nstate :=
  {| n_name := n_name st; n_alloc := n_alloc st; n_refctr := n_refctr st; n_procs := n_procs st; n_names := n_names st; n_gone := n_gone st;
     n_pending := n_pending st; n_results := n_results st; n_calls := n_calls st; n_connected := n_connected st; n_wrote := w |}.

(* the connection-level operation under the connection's lock: one frame, or an error and nothing written *)
Definition remote_write (st : nstate) (o : sop) : nstate * out :=
  if n_connected st then
    match send_frame 0 [] o with
    | Some f => (with_wrote st (n_wrote st ++ [f]), UOk)
    | None => (st, UErr)
    end
  else (st, UErr).

(* route_message: what an inbound control message does *)
Definition pid_of (t : term) : option pidr := match t with TPid p => Some p | _ => None end.
Definition role (r : N) (fs : list (N * term)) : term := rlookup r fs.

Definition same_key (a b : pidr) : bool :=      (* the pending table is keyed by "id.serial.creation" *)
  (pnum a =? pnum b) && (pserial a =? pserial b) && (pcreation a =? pcreation b).

(* SEND / SEND_TT: cookie 4, to_pid 2 *)
Definition send_arm (st : nstate) (fs : list (N * term)) (payload : option term) : nstate :=
  match payload, pid_of (role 2 fs) with
  | Some body, Some p =>
      match find_proc p (n_procs st) with
      | Some _ => fst (deliver st p (MRegular body))
      | None =>
          match find (fun e => same_key (fst e) p) (n_pending st) with
          | Some (rp, (i, _)) =>
              {| n_name := n_name st; n_alloc := n_alloc st; n_refctr := n_refctr st; n_procs := n_procs st; n_names := n_names st;
                 n_gone := n_gone st;
                 n_pending := filter (fun e => negb (same_key (fst e) p)) (n_pending st);
                 n_results := n_results st ++ [(i, RReply body)];
                 n_calls := n_calls st; n_connected := n_connected st; n_wrote := n_wrote st |}
          | None => st
          end
      end
  | _, _ => st
  end.
(* REG_SEND / REG_SEND_TT: from 1, cookie 4, to_name 5 *)
Definition regsend_arm (st : nstate) (fs : list (N * term)) (payload : option term) : nstate :=
  match payload, role 5 fs with
  | Some body, TAtom name =>
      match lookup_name name (n_names st) with
      | Some p => fst (deliver st p (MRegular body))
      | None => st
      end
  | _, _ => st
  end.
(* EXIT / EXIT_TT / EXIT2 / EXIT2_TT: from 1, to 2, reason 3 *)
Definition exit_arm (st : nstate) (fs : list (N * term)) : nstate :=
  match pid_of (role 1 fs), pid_of (role 2 fs) with
  | Some from, Some to => fst (deliver st to (MExit from (role 3 fs)))
  | _, _ => st
  end.
(* MONITOR_P_EXIT: from_proc 7, to_pid 2, ref 8, reason 3 *)
Definition monexit_arm (st : nstate) (fs : list (N * term)) : nstate :=
  match pid_of (role 7 fs), pid_of (role 2 fs), role 8 fs with
  | Some from, Some to, (TRef _ _ _ _ as r) => fst (deliver st to (MMonitorExit from r (role 3 fs)))
  | _, _, _ => st
  end.

(* route_message (after fix commit 42ef816: the trace-token and exit/2 forms are routed like the plain ones) *)
Definition route (st : nstate) (m : cmsg) (payload : option term) : nstate :=
  match m with
  | CMsg 2 fs | CMsg 12 fs => send_arm st fs payload
  | CMsg 6 fs | CMsg 16 fs => regsend_arm st fs payload
  | CMsg 3 fs | CMsg 13 fs | CMsg 8 fs | CMsg 18 fs => exit_arm st fs
  | CMsg 21 fs => monexit_arm st fs
  | _ => st
  end.

Definition disconnect (st : nstate) : nstate :=
  {| n_name := n_name st; n_alloc := n_alloc st; n_refctr := n_refctr st; n_procs := n_procs st; n_names := n_names st; n_gone := n_gone st;
     n_pending := n_pending st; n_results := n_results st; n_calls := n_calls st; n_connected := false; n_wrote := n_wrote st |}.

(* receive_message_from_read_half + the receiver task's reaction, for one frame body already cut by the deframer:
   a tick and unusable content keep the receiver going; an over-long length ends it (decided by the caller) *)
Definition on_frame (cfg : dcfg) (st : nstate) (data : bytes) : nstate :=
  match data with
  | [] => st
  | b0 :: rest =>
      if negb (b0 =? pass_through) then st
      else match decode_trailing cfg rest with
           | None => st
           | Some (ctl, remaining) =>
               match from_term control_table ctl with
               | CErr _ => st
               | COk m =>
                   match remaining with
                   | [] => route st m None
                   | _ => match decode_trailing cfg remaining with
                          | Some (pl, _) => route st m (Some pl)
                          | None => st
                          end
                   end
               end
           end
  end.

Definition rex_request (reply_to : pidr) (module function : bytes) (args : list term) : term :=
  TTuple [TPid reply_to; TTuple [TAtom n_call; TAtom module; TAtom function; TList args; TAtom n_user]].

Definition step (cfg : dcfg) (st : nstate) (o : op) : nstate * out :=
  match o with
  | OSpawn =>
      let '(p, a') := allocate (n_alloc st) in
      let pid := mk_pid (n_name st) p in
      ({| n_name := n_name st; n_alloc := a'; n_refctr := n_refctr st;
          n_procs := n_procs st ++ [{| pp := pid; plinks := []; pmons := []; pevents := [] |}];
          n_names := n_names st; n_gone := n_gone st; n_pending := n_pending st; n_results := n_results st; n_calls := n_calls st;
          n_connected := n_connected st; n_wrote := n_wrote st |}, UPid pid)
  | ORegister name p =>
      match lookup_name name (n_names st) with
      | Some _ => (st, UErr)
      | None =>
          ({| n_name := n_name st; n_alloc := n_alloc st; n_refctr := n_refctr st; n_procs := n_procs st;
              n_names := n_names st ++ [(name, p)]; n_gone := n_gone st; n_pending := n_pending st; n_results := n_results st;
              n_calls := n_calls st; n_connected := n_connected st; n_wrote := n_wrote st |}, UOk)
      end
  | OUnregister name =>
      match lookup_name name (n_names st) with
      | None => (st, UErr)
      | Some _ =>
          ({| n_name := n_name st; n_alloc := n_alloc st; n_refctr := n_refctr st; n_procs := n_procs st;
              n_names := filter (fun np => negb (eq_bytes (fst np) name)) (n_names st); n_gone := n_gone st; n_pending := n_pending st;
              n_results := n_results st; n_calls := n_calls st; n_connected := n_connected st; n_wrote := n_wrote st |}, UOk)
      end
  | OWhereis name => (st, match lookup_name name (n_names st) with Some p => UPid p | None => UNone end)
  | OSend to msg =>
      let '(st', ok) := deliver st to (MRegular msg) in (st', if ok then UOk else UErr)
  | OSendName name msg =>
      match lookup_name name (n_names st) with
      | None => (st, UErr)
      | Some p => let '(st', ok) := deliver st p (MRegular msg) in (st', if ok then UOk else UErr)
      end
  | OLink a b =>
      let ps1 := update_proc a (fun x => {| pp := pp x; plinks := add_unique_pid b (plinks x); pmons := pmons x; pevents := pevents x |}) (n_procs st) in
      let ps2 := update_proc b (fun x => {| pp := pp x; plinks := add_unique_pid a (plinks x); pmons := pmons x; pevents := pevents x |}) ps1 in
      (set_procs st ps2, UOk)
  | OUnlink a b =>
      let ps1 := update_proc a (fun x => {| pp := pp x; plinks := filter (fun l => negb (pid_eqb l b)) (plinks x); pmons := pmons x; pevents := pevents x |}) (n_procs st) in
      let ps2 := update_proc b (fun x => {| pp := pp x; plinks := filter (fun l => negb (pid_eqb l a)) (plinks x); pmons := pmons x; pevents := pevents x |}) ps1 in
      (set_procs st ps2, UOk)
  | OMonitor a b =>
      let '(r, c) := make_reference st in
      let st1 := with_refctr st c in
      (set_procs st1 (update_proc b (fun x => {| pp := pp x; plinks := plinks x; pmons := pmons x ++ [(a, r)]; pevents := pevents x |}) (n_procs st1)),
       URef r)
  | ODemonitor a b r =>
      (set_procs st (update_proc b (fun x => {| pp := pp x; plinks := plinks x;
                                                pmons := filter (fun mr => negb (ref_eqb (snd mr) r)) (pmons x); pevents := pevents x |}) (n_procs st)),
       UOk)
  | ORpc short module function args =>
      let '(p, a') := allocate (n_alloc st) in
      let reply_to := mk_pid (n_name st) p in
      let i := n_calls st in
      if n_connected st then
        match send_frame 0 [] (SRegSend reply_to n_rex (rex_request reply_to module function args)) with
        | Some f =>
            ({| n_name := n_name st; n_alloc := a'; n_refctr := n_refctr st; n_procs := n_procs st; n_names := n_names st; n_gone := n_gone st;
                n_pending := n_pending st ++ [(reply_to, (i, short))]; n_results := n_results st; n_calls := i + 1;
                n_connected := true; n_wrote := n_wrote st ++ [f] |}, UOk)
        | None =>
            ({| n_name := n_name st; n_alloc := a'; n_refctr := n_refctr st; n_procs := n_procs st; n_names := n_names st; n_gone := n_gone st;
                n_pending := n_pending st; n_results := n_results st ++ [(i, RSendFailed)]; n_calls := i + 1;
                n_connected := true; n_wrote := n_wrote st |}, UErr)
        end
      else
        ({| n_name := n_name st; n_alloc := a'; n_refctr := n_refctr st; n_procs := n_procs st; n_names := n_names st; n_gone := n_gone st;
            n_pending := n_pending st; n_results := n_results st ++ [(i, RNotConnected)]; n_calls := i + 1;
            n_connected := false; n_wrote := n_wrote st |}, UErr)
  | OExpire =>
      ({| n_name := n_name st; n_alloc := n_alloc st; n_refctr := n_refctr st; n_procs := n_procs st; n_names := n_names st; n_gone := n_gone st;
          n_pending := filter (fun e => negb (snd (snd e))) (n_pending st);
          n_results := n_results st ++ map (fun e => (fst (snd e), RTimeout)) (filter (fun e => snd (snd e)) (n_pending st));
          n_calls := n_calls st;
          n_connected := n_connected st; n_wrote := n_wrote st |}, UUnit)
  | OFrame data =>
      if n_connected st then (on_frame cfg st data, UUnit) else (st, UUnit)
  | OOverlong => (disconnect st, UUnit)
  | OPeerClose => (disconnect st, UUnit)
  | ORemote o => remote_write st o
  | ORemoteUnlink a b =>
      if n_connected st then
        let id := n_refctr st in
        remote_write (with_refctr st ((id + 1) mod 4294967296)) (SUnlink a b id)
      else (st, UErr)
  | ORemoteMonitor a b =>
      let '(r, c) := make_reference st in
      match remote_write (with_refctr st c) (SMonitor a b r) with
      | (st', UOk) => (st', URef r)
      | (st', _) => (st', UErr)
      end
  end.

Definition run (cfg : dcfg) (st : nstate) (ops : list op) : nstate := fold_left (fun s o => fst (step cfg s o)) ops st.

Definition node_init (name : bytes) (creation0 : N) (connected : bool) : nstate :=
  {| n_name := name; n_alloc := {| next_id := initial_next_id; next_serial := initial_next_serial; creation := creation0 |};
     n_refctr := 0; n_procs := []; n_names := []; n_gone := []; n_pending := []; n_results := []; n_calls := 0;
     n_connected := connected; n_wrote := [] |}.
