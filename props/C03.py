"""C03 — every valid external encoding decodes to exactly that value. Domain `codec` (op dec)."""
import struct
import etf, termgen, bytesgen

ID = "C03"
GEN_FILES = ["DecoderArms.v", "Tags.v", "Limits.v"]
RULE = ("(value, encoding) pairs: values from the C01 space plus maps with numerically-equal distinct keys; each node encoded by a spec-side "
        "encoder that picks among all admissible forms (SMALL_INTEGER/INTEGER/SMALL_BIG/LARGE_BIG incl. non-minimal, FLOAT_EXT text, four atom "
        "tags incl. Latin-1, STRING_EXT, SMALL/LARGE tuple, PID/NEW_PID, PORT/NEW_PORT/V4_PORT, REFERENCE/NEW_REFERENCE/NEWER_REFERENCE, LOCAL_EXT, "
        "COMPRESSED); plus the same bytes with trailing junk; oracle: decode must succeed and denote exactly the value the spec reader reads; "
        "distinct = distinct byte string; non-trivial = uses a non-canonical form or has >= 2 nodes")
ASSUMPTIONS = ["spec encoder/reader transcribed from erl_ext_dist (props/termgen.py, props/etf.py)"]


def value_has(v, pred):
    if pred(v):
        return True
    k = v[0]
    if k == "tuple":
        return any(value_has(x, pred) for x in v[1])
    if k == "list":
        return any(value_has(x, pred) for x in v[1]) or value_has(v[2], pred)
    if k in ("map", "map-dupkeys"):
        return any(value_has(a, pred) or value_has(b, pred) for a, b in v[1])
    if k == "intfun":
        return any(value_has(x, pred) for x in v[9])
    return False


def confusable(a, b):
    """reason why the term order may say Equal for two distinct values: 'numeric' (integer/float keys that are
    numerically equal, exactly or after the lossy conversion), 'listform' (proper list or nil against improper
    list), found at aligned positions of equal-shaped containers; None otherwise; '' if identical"""
    if a == b:
        return ""
    ka, kb = a[0], b[0]
    if {ka, kb} <= {"int", "float"}:
        try:
            if etf.erl_cmp(a, b) == 0 or lossy_equal(a, b):
                return "numeric"
        except Exception:  # noqa
            pass
        return None
    if ka in ("nil", "list") and kb in ("nil", "list"):
        pa = ka == "nil" or a[2] == etf.NIL
        pb = kb == "nil" or b[2] == etf.NIL
        if pa != pb:
            return "listform"
        if ka == "list" and kb == "list" and len(a[1]) == len(b[1]):
            return combine([confusable(x, y) for x, y in zip(a[1], b[1])] + [confusable(a[2], b[2])])
        return None
    if ka == kb == "tuple" and len(a[1]) == len(b[1]):
        return combine([confusable(x, y) for x, y in zip(a[1], b[1])])
    if ka == kb == "intfun" and a[1:9] == b[1:9] and len(a[9]) == len(b[9]):
        return combine([confusable(x, y) for x, y in zip(a[9], b[9])])
    if ka == kb == "intfun" and a[2:4] + a[5:9] == b[2:4] + b[5:9] and a[9] == b[9]:
        return "funarity"      # funs differing only in arity / num_free: not identifying fields
    if ka == kb == "map" and len(a[1]) == len(b[1]):
        return "numeric" if any(value_has(k, lambda x: x[0] in ("int", "float")) for k, _ in a[1]) else None
    return None


def combine(rs):
    if any(r is None for r in rs):
        return None
    rs = [r for r in rs if r]
    return rs[0] if rs else ""


def key_collision(v, reason):
    if v[0] != "map":
        return False
    ks = [k for k, _ in v[1]]
    return any(confusable(ks[i], ks[j]) == reason for i in range(len(ks)) for j in range(i + 1, len(ks)))


def numeric_equal_keys(v):
    return key_collision(v, "numeric")


def lossy_equal(a, b):
    """integer and float keys that the lossy int->f64 comparison cannot tell apart"""
    if {a[0], b[0]} == {"int", "float"}:
        n = a[1] if a[0] == "int" else b[1]
        f = b if a[0] == "int" else a
        fv = etf.float_frac(f[1])
        try:
            return fv is not None and float(n) == float(fv)
        except OverflowError:
            return False
    return False


def list_vs_improper_keys(v):
    return key_collision(v, "listform")


def uses_tag(data, tagset):
    t = bytesgen.tags_used(data)
    return t is not None and bool(t & tagset)


def latin1_high(data):
    """an ATOM_EXT / SMALL_ATOM_EXT whose bytes include one >= 0x80 (scan by spec walk is overkill: look at the value)"""
    try:
        v = etf.spec_decode(data)
    except Exception:  # noqa
        return False
    return uses_tag(data, {100, 115}) and value_has(v, lambda x: x[0] in ("atom",) and any(b >= 0x80 for b in x[1])) or \
        (uses_tag(data, {100, 115}) and any(b >= 0x80 for b in data))


def oracle(case, impl):
    if impl.startswith(("PANIC", "CRASH", "TIMEOUT")):
        return ("violation", "decoder did not return: " + impl[:60])
    data = bytes.fromhex(case.split()[1].replace(".", ""))
    try:
        r = etf.Reader(data)
        if r.u(1) != 131:
            return None
        v = etf.spec_read_term(r)
        trailing = len(data) - r.i
    except Exception:  # noqa
        return None
    base = data[:len(data) - trailing] if trailing else data
    if v[0] == "map-dupkeys" or value_has(v, lambda x: x[0] == "map-dupkeys"):
        return None
    if impl.startswith("err"):
        if trailing and impl == "err trailing:%d" % trailing:
            return None
        if uses_tag(base, {89}):
            return ("known", "C03-new-port-ext")
        if latin1_high(base):
            return ("known", "C03-latin1-atoms")
        if trailing:
            return ("violation", "%d bytes after a complete term: expected a trailing-data error, got %s" % (trailing, impl[:40]))
        return ("violation", "a valid encoding is rejected: " + impl[:60])
    if trailing:
        return ("violation", "bytes after a complete term are ignored")
    got = etf.denote(etf.parse_term(impl[3:]))
    if got != v:
        if value_has(v, numeric_equal_keys):
            return ("known", "C03-map-numeric-keys")
        if value_has(v, list_vs_improper_keys):
            return ("known", "C03-map-list-improper-keys")
        if value_has(v, lambda x: key_collision(x, "funarity")):
            return None     # the property identifies funs by their identifying fields; arity is not one
        if latin1_high(base):
            return ("known", "C03-latin1-atoms")
        return ("violation", "decoded term denotes a different value than the bytes encode")
    return None


def oracle_for(_d):
    return oracle


def pair_maps(rng, limit):
    """maps #{a => 1, b => 2} for pairs of distinct same-rank values from the ordering universe (every numeric
    representation boundary, multiples by 256, binaries/bit-strings, lists/improper lists, identifiers): a decoder
    whose key order wrongly says Equal drops an entry"""
    import ordlib
    leaves = [t for t in ordlib.numeric_leaves() + ordlib.other_leaves() + ordlib.containers([]) if not ordlib.noncanonical(t)]
    extra = [termgen.int_ast(n) for n in (2**32, 2**40, 2**48, 2**64, 2**72, 2**80, -2**40, -2**48, 3 * 2**64, 3 * 2**72, 256**20, 256**21)]
    vals = []
    for t in leaves + extra:
        try:
            v = etf.denote(termgen.strip_loc(t))
            if not etf.has_nan(v):
                vals.append(v)
        except Exception:  # noqa
            pass
    uniq = list(dict.fromkeys(vals))
    pairs = [(a, b) for i, a in enumerate(uniq) for b in uniq[i + 1:] if etf.RANK[a[0]] == etf.RANK[b[0]] or {a[0], b[0]} <= {"nil", "list"}]
    rng.shuffle(pairs)
    out = []
    for a, b in pairs[:limit]:
        v = ("map", frozenset([(a, ("int", 1)), (b, ("int", 2))]))
        out.append(termgen.encode_value(v, rng, canonical=True)[0])
    return out


def run(ctx):
    rng = ctx.rng
    datas = []
    E = lambda v, **kw: termgen.encode_value(v, rng, **kw)[0]  # noqa
    one, onef = ("int", 1), ("float", termgen.fbits(1.0))
    specials = [
        ("map", frozenset([(one, ("int", 10)), (onef, ("int", 20))])),
        ("map", frozenset([(("int", 2**53), one), (("float", termgen.fbits(2.0**53)), one), (("int", 2**53 + 1), one)])),
        ("map", frozenset([(etf.mklist([one]), one), (etf.mklist([one], ("int", 2)), one)])),
        ("map", frozenset([(etf.NIL, one), (etf.mklist([one], ("atom", b"t")), one)])),
        ("map", frozenset([(("bits", b"\x01", 8), one), (("bits", b"\x01\x80", 9), one)])),
        ("atom", "é".encode()), ("atom", "ÿþ".encode()),
        # names whose Latin-1 bytes look like well-formed UTF-8 (U+00C3 U+00A9 is C3 A9 in Latin-1, which is also "é" in UTF-8)
        ("atom", "\u00c3\u00a9".encode()), ("atom", "caf\u00c3\u00a9".encode()), ("atom", "\u00e2\u0082\u00ac".encode()),
        ("tuple", (("atom", "\u00c3\u00a9".encode()), ("atom", "é".encode()))),
        ("map", frozenset([(("atom", "\u00c3\u00a9".encode()), one), (("atom", "é".encode()), ("int", 2))])), ("tuple", (("atom", "é".encode()), ("atom", b"plain"))),
        ("port", b"n@h", 5, 3), ("port", "é".encode(), 2**32 - 1, 2**32 - 1),
        ("float", termgen.fbits(-0.0)), ("float", termgen.fbits(5e-324)), ("float", termgen.fbits(1.7976931348623157e308)),
        ("int", 2**2040), ("int", -(2**2048) + 1), etf.mklist([("int", c) for c in b"hello"]), etf.mklist([("int", 255)] * 65535),
    ]
    # maps whose keys differ in one fine field only (a serial, a creation, the last digit of a big integer ...): nothing merges
    for t in termgen.sibling_maps():
        v = etf.denote(t)
        datas.append(E(v, canonical=True))
        for _ in range(ctx.budget(2, 10)):
            datas.append(E(v))
    for v in specials:
        for _ in range(ctx.budget(8, 40)):
            datas.append(E(v))
        datas.append(E(v, compress=True))
    # compressed terms whose deflated stream is far longer than any internal buffer of the inflater (a few KiB .. 300 KiB):
    # moderately compressible binaries, and a long list
    for n, alphabet in ((6000, 200), (60000, 40), (200000, 16), (400000, 90)):
        blob = bytes(rng.randrange(alphabet) for _ in range(n))
        datas.append(E(("bits", blob, 8 * n), compress=True))
    datas.append(E(etf.mklist([("int", rng.randrange(2**31)) for _ in range(30000)]), compress=True))
    # hand-written forms the random encoder may take long to hit
    a = lambda s: bytes([119, len(s)]) + s  # noqa
    datas += [bytes([131, 89]) + a(b"n@h") + struct.pack(">II", 7, 3),                       # NEW_PORT_EXT
              bytes([131, 100, 0, 1, 0xe9]), bytes([131, 115, 2, 0xe9, 0x41]),                # Latin-1 atoms
              bytes([131, 104, 1, 89]) + bytes([100, 0, 1, 0x6e]) + struct.pack(">II", 1, 1),
              bytes([131, 99]) + b"1.50000000000000000000e+00".ljust(31, b"\0"),
              bytes([131, 99]) + b"-3.14159265358979311600e+00".ljust(31, b"\0"),
              bytes([131, 110, 3, 0, 5, 0, 0]), bytes([131, 111, 0, 0, 0, 2, 1, 0, 1]), bytes([131, 98, 0, 0, 0, 7])]
    datas += [bytes([131, 100, 0, 2, 0xc3, 0xa9]), bytes([131, 115, 2, 0xc3, 0xa9]), bytes([131, 115, 3, 0xe2, 0x82, 0xac]),
              bytes([131, 104, 2, 115, 2, 0xc3, 0xa9, 119, 2, 0xc3, 0xa9]),
              bytes([131, 116, 0, 0, 0, 2, 115, 2, 0xc3, 0xa9, 97, 1, 119, 2, 0xc3, 0xa9, 97, 2])]
    datas += pair_maps(rng, ctx.budget(2500, 20000))
    pairs = bytesgen.valid_encodings(rng, ctx.budget(3500, 150000), canonical_share=0.15)
    for v, d in pairs:
        datas.append(d)
        if rng.random() < 0.15:
            datas.append(d + bytes(rng.randrange(256) for _ in range(rng.randrange(1, 4))))
    cases = bytesgen.attach_ztabs("dec", datas)

    def nontrivial(c, impl):
        return c if len(c.split()[1]) > 8 else None

    def classify(c, impl):
        data = bytes.fromhex(c.split()[1].replace(".", ""))
        ks = ["result:" + " ".join(impl.split()[:2])[:16] if impl.startswith("err") else "result:ok"]
        for t in (bytesgen.tags_used(data) or []):
            ks.append("tag:%d" % t)
        return ks
    ctx.diff_domain("codec", cases, oracle=oracle, nontrivial=nontrivial, classify=classify)
    # histories of decode calls on one thread: whatever a call leaves behind (a failed one in particular) must not reach the
    # next; compressed terms with a wrong declared size or a truncated stream next to valid ones
    small = [d for d in datas if len(d) < 3000]
    comp_ok = [E(v, compress=True) for v in specials[:8]] + [E(etf.mklist([("int", 7)] * 500), compress=True)]
    hcases, HEXP = [], {}
    for _ in range(ctx.budget(150, 3000)):
        elems = []
        for _e in range(rng.choice([2, 3, 5])):
            r = rng.random()
            d = rng.choice(comp_ok) if r < 0.45 else rng.choice(small)
            if r < 0.45 and rng.random() < 0.5:
                k = rng.random()
                if k < 0.35 and len(d) > 12:
                    d = d[:rng.randrange(7, len(d) - 1)]                                        # truncated stream
                elif k < 0.7:
                    n = struct.unpack(">I", d[2:6])[0]
                    d = d[:2] + struct.pack(">I", max(0, n + rng.choice([-3, -1, 1, 2, 1000]))) + d[6:]   # wrong declared size
                else:
                    d = d + bytes([rng.randrange(256)])                                         # trailing byte
            elems.append(d)
        one_by_one = bytesgen.attach_ztabs("dec", elems)
        # the inflate oracle's entries of all elements, longest stream first (a truncated stream is a prefix of the full one)
        ents = {}
        for x in one_by_one:
            w = x.split()[2:]
            for i in range(0, len(w) - 3, 4):
                ents[w[i + 1]] = " ".join(w[i:i + 4])
        ztail = " ".join(ents[k] for k in sorted(ents, key=len, reverse=True))
        case = "dech " + ",".join(d.hex() for d in elems) + ((" " + ztail) if ztail else "")
        HEXP[case] = elems
        hcases.append(case)

    def hist_oracle(case, impl):
        if impl.startswith(("PANIC", "CRASH", "TIMEOUT")):
            return ("violation", "decode did not return: " + impl[:60])
        outs = impl.split(" ;; ")
        for d, o in zip(HEXP[case], outs):
            r = oracle("dec " + d.hex(), o)
            if r is not None and r[0] == "violation":
                return ("violation", "in a history of decode calls on one thread: " + r[1])
        return None
    ctx.diff_domain("codec", hcases, oracle=hist_oracle, nontrivial=lambda c, i: c, classify=lambda c, i: ["op:dech", "calls:%d" % len(HEXP[c])])
