(* The control-message table of the Erlang distribution protocol (erts "Distribution Protocol", section
   "Protocol between connected nodes"), written from the document: operation tag, tuple arity, and the role of every
   element after the tag.  Role codes are those of tools/gen_consts.py (ROLES). *)
From Coq Require Import NArith List.
Import ListNotations.
Open Scope N_scope.

(* roles: 1 FromPid 2 ToPid 3 Reason 4 Unused(cookie) 5 ToName 6 ToProc 7 FromProc 8 Ref 9 TraceToken 10 ReqId 11 From
          12 GroupLeader 13 MFA 14 ArgList 15 OptList 16 To 17 Flags 18 Result 19 Alias 20 Id *)
Definition protocol_table : list (N * N * list N) :=
  [ (1, 3, [1; 2]);                 (* LINK {1, FromPid, ToPid} *)
    (2, 3, [4; 2]);                 (* SEND {2, Unused, ToPid} *)
    (3, 4, [1; 2; 3]);              (* EXIT {3, FromPid, ToPid, Reason} *)
    (4, 3, [1; 2]);                 (* UNLINK {4, FromPid, ToPid} *)
    (5, 1, []);                     (* NODE_LINK {5} *)
    (6, 4, [1; 4; 5]);              (* REG_SEND {6, FromPid, Unused, ToName} *)
    (7, 3, [1; 2]);                 (* GROUP_LEADER {7, FromPid, ToPid} *)
    (8, 4, [1; 2; 3]);              (* EXIT2 {8, FromPid, ToPid, Reason} *)
    (12, 4, [4; 2; 9]);             (* SEND_TT {12, Unused, ToPid, TraceToken} *)
    (13, 5, [1; 2; 9; 3]);          (* EXIT_TT {13, FromPid, ToPid, TraceToken, Reason} *)
    (16, 5, [1; 4; 5; 9]);          (* REG_SEND_TT {16, FromPid, Unused, ToName, TraceToken} *)
    (18, 5, [1; 2; 9; 3]);          (* EXIT2_TT {18, FromPid, ToPid, TraceToken, Reason} *)
    (19, 4, [1; 6; 8]);             (* MONITOR_P {19, FromPid, ToProc, Ref} *)
    (20, 4, [1; 6; 8]);             (* DEMONITOR_P {20, FromPid, ToProc, Ref} *)
    (21, 5, [7; 2; 8; 3]);          (* MONITOR_P_EXIT {21, FromProc, ToPid, Ref, Reason} *)
    (22, 3, [1; 2]);                (* SEND_SENDER {22, FromPid, ToPid} *)
    (23, 4, [1; 2; 9]);             (* SEND_SENDER_TT {23, FromPid, ToPid, TraceToken} *)
    (24, 3, [1; 2]);                (* PAYLOAD_EXIT {24, FromPid, ToPid} *)
    (25, 4, [1; 2; 9]);             (* PAYLOAD_EXIT_TT {25, FromPid, ToPid, TraceToken} *)
    (26, 3, [1; 2]);                (* PAYLOAD_EXIT2 {26, FromPid, ToPid} *)
    (27, 4, [1; 2; 9]);             (* PAYLOAD_EXIT2_TT {27, FromPid, ToPid, TraceToken} *)
    (28, 4, [7; 2; 8]);             (* PAYLOAD_MONITOR_P_EXIT {28, FromProc, ToPid, Ref} *)
    (29, 6, [10; 11; 12; 13; 15]);  (* SPAWN_REQUEST {29, ReqId, From, GroupLeader, {M,F,A}, OptList} (ArgList is the payload) *)
    (30, 7, [10; 11; 12; 13; 15; 9]); (* SPAWN_REQUEST_TT {30, ReqId, From, GroupLeader, {M,F,A}, OptList, Token} *)
    (31, 5, [10; 16; 17; 18]);      (* SPAWN_REPLY {31, ReqId, To, Flags, Result} *)
    (32, 6, [10; 16; 17; 18; 9]);   (* SPAWN_REPLY_TT {32, ReqId, To, Flags, Result, Token} *)
    (33, 3, [1; 19]);               (* ALIAS_SEND {33, FromPid, Alias} *)
    (34, 4, [1; 19; 9]);            (* ALIAS_SEND_TT {34, FromPid, Alias, Token} *)
    (35, 4, [20; 1; 2]);            (* UNLINK_ID {35, Id, FromPid, ToPid} *)
    (36, 4, [20; 1; 2]) ].          (* UNLINK_ID_ACK {36, Id, FromPid, ToPid} *)
