(* C19 — inbound routing is exact and the connection's receiver outlives bad input.
   Model: Node/Node.v — receive_message_from_read_half + the receiver task as on_frame (one frame body), route_message
   as route, and the receiver's exit conditions in step; after fix commit 375429f. *)
From EDP Require Import Base.Bytes Term.Term Order.Cmp Codec.Decode Dist.Control Dist.Receive Node.Node Node.NodeFacts.
From EDP Require Dist.ReceiveTimed.
Open Scope N_scope.

(* the connection is deregistered only when the peer closes the stream or breaks framing *)
Theorem C19_disconnect_only_on_close_or_framing : forall cfg st o,
  n_connected st = true -> n_connected (fst (step cfg st o)) = false -> o = OOverlong \/ o = OPeerClose.
Proof. exact disconnect_only_on_close_or_framing. Qed.

(* ticks, foreign markers, undecodable control terms, terms that are no control tuple: nothing at all changes *)
Theorem C19_unusable_frames_change_nothing : forall cfg st,
  on_frame cfg st [] = st /\
  (forall b0 rest, (b0 =? pass_through) = false -> on_frame cfg st (b0 :: rest) = st) /\
  (forall rest, decode_trailing cfg rest = None -> on_frame cfg st (pass_through :: rest) = st) /\
  (forall rest ctl remaining e, decode_trailing cfg rest = Some (ctl, remaining) ->
     from_term Gen.ControlTable.control_table ctl = CErr e -> on_frame cfg st (pass_through :: rest) = st).
Proof. exact unusable_frames_change_nothing. Qed.

(* a message for a live process reaches exactly that process *)
Theorem C19_send_routed_to_its_process : forall st fs body p, crashes (MRegular body) = false ->
  pid_of (role 2 fs) = Some p -> (exists x, find_proc p (n_procs st) = Some x) ->
  route st (CMsg 2 fs) (Some body) = set_procs st (update_proc p (add_event (MRegular body)) (n_procs st)).
Proof. exact send_routed_to_its_process. Qed.

(* messages for unknown recipients are dropped without affecting anything *)
Theorem C19_unknown_pid_dropped : forall st fs body p,
  pid_of (role 2 fs) = Some p -> find_proc p (n_procs st) = None ->
  find (fun e => same_key (fst e) p) (n_pending st) = None -> route st (CMsg 2 fs) (Some body) = st.
Proof. exact unknown_recipient_dropped. Qed.

Theorem C19_unknown_name_dropped : forall st fs body name,
  role 5 fs = TAtom name -> lookup_name name (n_names st) = None -> route st (CMsg 6 fs) (Some body) = st.
Proof. exact unknown_name_dropped. Qed.

(* exit and monitor notifications reach their target with sender, reference and reason intact *)
Example C19_exit_and_monitor_exit_routed :
  let cfg := {| d_arms := Gen.DecoderArms.owned_arms; d_cache := []; d_refs := []; d_inflate := fun _ => None; d_float_text := fun _ => None;
                d_kcmp := cmp_owned; d_kinsert := map_insert; d_extra_fuel := 0 |} in
  let me := {| pnode := [110]; pnum := 1; pserial := 0; pcreation := 7; ploc := None |} in
  let them := {| pnode := [112]; pnum := 9; pserial := 1; pcreation := 2; ploc := None |} in
  let r := TRef [112] 2 [5; 6; 7] None in
  let st0 := run cfg (node_init [110] 7 true) [OSpawn] in
  let st1 := route st0 (CMsg 3 [(1, TPid them); (2, TPid me); (3, TAtom [107])]) None in
  let st2 := route st1 (CMsg 21 [(7, TPid them); (2, TPid me); (8, r); (3, TAtom [100])]) None in
  map pevents (n_procs st2) = [[MExit them (TAtom [107]); MMonitorExit them r (TAtom [100])]].
Proof. vm_compute. reflexivity. Qed.

(* ---- "quiet periods during which the peer keeps ticking": the receiver's clock (Dist/ReceiveTimed.v) ----
   every wait — for a length prefix, for a body — has its own deadline T and a tick ends a wait; there is no deadline
   across frames *)
Theorem C19_no_deadline_across_frames : forall T cfg l, forallb (ReceiveTimed.prompt T) l = true ->
  ReceiveTimed.task_run T cfg l = ReceiveTimed.task_untimed cfg (map ReceiveTimed.body_of l).
Proof. exact ReceiveTimed.no_deadline_across_frames. Qed.

(* any number of ticks, each before its own deadline, however long they take together, changes nothing *)
Theorem C19_ticks_keep_the_receiver_alive : forall T cfg ws l, forallb (fun w => w <? T) ws = true ->
  ReceiveTimed.task_run T cfg (map ReceiveTimed.tick ws ++ l) = ReceiveTimed.task_run T cfg l.
Proof. exact ReceiveTimed.ticks_keep_it_alive. Qed.

(* a wait that lasts T ends the receiver (the peer neither sent nor ticked): nothing after it is routed *)
Theorem C19_a_silent_wait_stops : forall T cfg wp wb body r, T <= wp ->
  ReceiveTimed.task_run T cfg (ReceiveTimed.AFrame wp wb body :: r) = ([], ReceiveTimed.STimeout).
Proof. exact ReceiveTimed.a_silent_wait_stops. Qed.

Example C19_an_hour_of_ticks : forall cfg body,
  ReceiveTimed.task_run 10000 cfg (map ReceiveTimed.tick (repeat 1000 3600) ++ [ReceiveTimed.AFrame 5 5 body]) =
  ReceiveTimed.task_run 10000 cfg [ReceiveTimed.AFrame 5 5 body].
Proof. exact ReceiveTimed.an_hour_of_ticks. Qed.

Check C19_disconnect_only_on_close_or_framing.
