(* Node::start hands the port mapper's creation to the allocator the node already has (PidAllocator::set_creation stores
   the creation and nothing else): identifiers handed out before the start (the reply addresses of calls made on a node
   that is not started yet) and after it are numbered by one sequence, so no number (id, serial) is used twice even when
   the creation handed out equals the placeholder the node carried before. *)
From EDP Require Import Base.Bytes Gen.PidConsts Dist.PidAlloc Dist.PidAllocFacts.
Open Scope N_scope.

Definition set_creation (c : N) (st : pstate) : pstate :=
  {| next_id := next_id st; next_serial := next_serial st; creation := c |}.

Definition num (p : pid) : N * N := (p_id p, p_serial p).

Lemma allocate_set_creation c st :
  num (fst (allocate (set_creation c st))) = num (fst (allocate st)) /\
  snd (allocate (set_creation c st)) = set_creation c (snd (allocate st)).
Proof. unfold allocate, set_creation. cbn [next_id next_serial creation]. destruct (_ <=? _); split; reflexivity. Qed.

Lemma allocs_set_creation c : forall k st, map num (allocs k (set_creation c st)) = map num (allocs k st).
Proof.
  induction k as [|k IH]; intros st; [reflexivity|]. cbn [allocs].
  pose proof (allocate_set_creation c st) as [Hn Hs].
  destruct (allocate (set_creation c st)) as [p1 s1]. destruct (allocate st) as [p2 s2]. cbn [fst snd] in Hn, Hs. subst s1.
  cbn [map]. now rewrite Hn, IH.
Qed.

Lemma allocs_app j : forall k st, allocs (j + k) st = allocs j st ++ allocs k (after j st).
Proof.
  induction j as [|j IH]; intros k st; [reflexivity|]. cbn [Nat.add allocs after].
  destruct (allocate st) as [p st'] eqn:E. cbn [snd app]. now rewrite IH.
Qed.

Lemma allocs_num_nodup k st : wf st -> N.of_nat k <= M * two32 -> NoDup (map num (allocs k st)).
Proof.
  intros Hw Hk. apply NoDup_map_inj_in; [|now apply allocs_nodup].
  intros x y Hx Hy Hn. apply allocs_creation in Hx, Hy. destruct x, y. unfold num in Hn. cbn in *. injection Hn as -> ->. congruence.
Qed.

(* j identifiers before the start, k after it, whatever creation c the port mapper hands out: all j + k numbers differ *)
Theorem start_keeps_the_numbering j k c st : wf st -> N.of_nat (j + k) <= M * two32 ->
  NoDup (map num (allocs j st ++ allocs k (set_creation c (after j st)))).
Proof.
  intros Hw Hk. rewrite map_app, allocs_set_creation, <- map_app, <- allocs_app. now apply allocs_num_nodup.
Qed.

(* and those made after the start carry the creation handed out *)
Theorem after_start_creation j k c st p : In p (allocs k (set_creation c (after j st))) -> p_creation p = c.
Proof. intros H. now apply allocs_creation in H. Qed.
