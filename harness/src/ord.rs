//! domain `ord`: `cmp <termA> | <termB>` -> `o=<lt|eq|gt> b=<lt|eq|gt> eq=<t|f> heq=<t|f>`
//!  o = OwnedTerm::cmp, b = BorrowedTerm::cmp (via From<&OwnedTerm>), eq = ==, heq = equal DefaultHasher(0-key) hashes
use crate::termio::{Toks, read_term};
use erltf::{BorrowedTerm, OwnedTerm};
use std::cmp::Ordering;
use std::hash::{Hash, Hasher};

fn o2s(o: Ordering) -> &'static str {
    match o {
        Ordering::Less => "lt",
        Ordering::Equal => "eq",
        Ordering::Greater => "gt",
    }
}

fn h(t: &OwnedTerm) -> u64 {
    let mut s = std::collections::hash_map::DefaultHasher::new();
    t.hash(&mut s);
    s.finish()
}

pub fn run_case(line: &str) -> String {
    let (op, rest) = line.split_once(' ').unwrap_or((line, ""));
    match op {
        "cmp" => {
            let (a, b) = rest.split_once(" | ").expect("two terms");
            let ta = read_term(&mut Toks::new(a));
            let tb = read_term(&mut Toks::new(b));
            let ba = BorrowedTerm::from(&ta);
            let bb = BorrowedTerm::from(&tb);
            format!(
                "o={} b={} eq={} heq={}",
                o2s(ta.cmp(&tb)),
                o2s(ba.cmp(&bb)),
                if ta == tb { "t" } else { "f" },
                if h(&ta) == h(&tb) { "t" } else { "f" }
            )
        }
        _ => panic!("bad op"),
    }
}
