"""Shared pieces of the socket-level checks (C06, C07): flag sets, spec-side frame builders for a conforming peer,
script assembly and output parsing for the harness domain `conn`."""
import struct
import etf, termgen

SEP = " ;; "
# flags a conforming OTP 26 node presents (erl_dist_protocol: mandatory set, DIST_HDR_ATOM_CACHE, FRAGMENTS, SPAWN, ALIAS ...)
DFLAG_DIST_HDR_ATOM_CACHE = 0x2000
DFLAG_FRAGMENTS = 0x800000
OTP26 = 0x0000000DF7FBD | DFLAG_DIST_HDR_ATOM_CACHE | DFLAG_FRAGMENTS | (1 << 32) | (1 << 34) | (1 << 35)
LIB_DEFAULT = (0x04 | 0x10 | 0x80 | 0x100 | 0x200 | 0x400 | 0x800 | 0x10000 | 0x20000 | 0x40000 | 0x01000000 | 0x02000000 | 0x04_0000_0000
               | 0x01 | 0x08 | 0x20 | 0x4000 | 0x800_0000 | 0x10_0000_0000 | 0x20_0000_0000 | 0x800_0000_0000)

PID = ("p", b"peer@h", 7, 0, 1, None)
PID2 = ("p", b"client@h", 99, 3, 2, None)
REF = ("r", b"peer@h", 1, [5, 6, 7], None)


def be32(n):
    return struct.pack(">I", n)


def frame(body):
    return be32(len(body)) + body


def enc_term(t, rng):
    """a conforming peer's encoding of the term (with version byte)"""
    return bytes([131]) + termgen.enc_value(etf.denote(termgen.strip_loc(t)), rng, canonical=True)


def pass_through(ctl, payload, rng):
    return bytes([112]) + enc_term(ctl, rng) + (enc_term(payload, rng) if payload is not None else b"")


def chunked(rng, data, max_chunks=6):
    """arbitrary segmentation of the byte stream"""
    if len(data) < 2 or rng.random() < 0.3:
        return [data]
    k = rng.randrange(1, max_chunks)
    cuts = sorted(set(rng.randrange(1, len(data)) for _ in range(k)))
    out, prev = [], 0
    for c in cuts + [len(data)]:
        out.append(data[prev:c])
        prev = c
    return [c for c in out if c]


def field_for_role(role, rng, gen_any):
    if role in (1, 2, 6, 7, 11, 12, 16):
        return rng.choice([PID, PID2, ("p", b"n@h", rng.randrange(2**15), rng.randrange(8), rng.randrange(2**32), None)])
    if role in (8, 10, 19):
        return rng.choice([REF, ("r", b"n@h", rng.randrange(2**32), [rng.randrange(2**32) for _ in range(rng.choice([1, 3, 5]))], None)])
    if role == 4:
        return ("a", b"")
    if role == 5:
        return ("a", rng.choice([b"rex", b"net_kernel", b"my_server", "sérvér".encode()]))
    if role == 13:
        return ("t", [("a", b"erlang"), ("a", b"apply"), ("i", 2)])
    if role == 20:
        n = rng.choice([0, 1, 2**31, 2**32, 2**63 - 1, 2**63, 2**64 - 1, rng.randrange(2**64)])
        return ("i", n) if n < 2**63 else ("g", False, n.to_bytes(8, "little"))
    if role == 17:
        return ("i", rng.randrange(4))
    return gen_any()


def parse_recv(out):
    """one R output -> ("ok", control term AST, payload AST or None) | ("err",) | ("eof",) | (other,)"""
    if out.startswith("ok "):
        to = out.split(" || to=")[1].split(" || into=")[0]
        payload = out.rsplit(" | ", 1)[1]
        return ("ok", etf.parse_term(to), None if payload == "-" else etf.parse_term(payload))
    return (out,)


def split_frames(data):
    """the frames of a byte stream by their 4-byte length prefixes; None if the stream does not end on a frame boundary"""
    out, i = [], 0
    while i < len(data):
        if i + 4 > len(data):
            return None
        n = struct.unpack(">I", data[i:i + 4])[0]
        if i + 4 + n > len(data):
            return None
        out.append(data[i + 4:i + 4 + n])
        i += 4 + n
    return out
