(* Base definitions shared by every model: bytes, big-endian words, option/result helpers.
   Definitions only (plus their elementary lemmas, which later proofs use as the interface). *)
From Coq Require Export List NArith ZArith Bool Lia.
Export ListNotations.
Open Scope N_scope.

Arguments N.add : simpl never.
Arguments N.sub : simpl never.
Arguments N.mul : simpl never.
Arguments N.eqb : simpl never.
Arguments N.ltb : simpl never.
Arguments N.leb : simpl never.
Arguments N.of_nat : simpl never.
Arguments N.to_nat : simpl never.
Arguments N.div : simpl never.
Arguments N.modulo : simpl never.
Arguments N.pow : simpl never.

Definition byte := N.
Definition bytes := list N.

Definition is_byte (b : N) : bool := b <? 256.
Definition all_bytes (l : bytes) : bool := forallb is_byte l.

(* length as N *)
Definition len {A} (l : list A) : N := N.of_nat (length l).

(* big-endian encoding of the low k bytes of n *)
Fixpoint be (k : nat) (n : N) : bytes :=
  match k with
  | O => []
  | S k' => be k' (n / 256) ++ [n mod 256]
  end.

Definition unbe (bs : bytes) : N := fold_left (fun acc b => acc * 256 + b) bs 0.

(* little-endian *)
Fixpoint le (k : nat) (n : N) : bytes :=
  match k with
  | O => []
  | S k' => (n mod 256) :: le k' (n / 256)
  end.

Fixpoint unle (bs : bytes) : N :=
  match bs with
  | [] => 0
  | b :: r => b + 256 * unle r
  end.

(* split off exactly k elements *)
Fixpoint take {A} (k : nat) (l : list A) : option (list A * list A) :=
  match k with
  | O => Some ([], l)
  | S k' => match l with
            | [] => None
            | x :: r => match take k' r with
                        | Some (h, t) => Some (x :: h, t)
                        | None => None
                        end
            end
  end.

Definition rd_be (k : nat) (bs : bytes) : option (N * bytes) :=
  match take k bs with
  | Some (h, t) => Some (unbe h, t)
  | None => None
  end.

(* ---- elementary lemmas ---- *)

Lemma take_app {A} (h t : list A) : take (length h) (h ++ t) = Some (h, t).
Proof. induction h as [|x h IH]; cbn [take length app]; [reflexivity|]. now rewrite IH. Qed.

Lemma take_spec {A} k (l h t : list A) : take k l = Some (h, t) -> l = h ++ t /\ length h = k.
Proof.
  revert l h t; induction k as [|k IH]; intros l h t H; cbn [take] in H.
  - inversion H; subst; split; reflexivity.
  - destruct l as [|x r]; [discriminate|].
    destruct (take k r) as [[h' t']|] eqn:E; [|discriminate].
    inversion H; subst. apply IH in E as [-> <-]. split; reflexivity.
Qed.

Lemma take_none {A} k (l : list A) : take k l = None <-> (length l < k)%nat.
Proof.
  revert l; induction k as [|k IH]; intros l; cbn [take].
  - split; [discriminate|lia].
  - destruct l as [|x r]; cbn [length]; [split; [lia|reflexivity]|].
    specialize (IH r). destruct (take k r) as [[h t]|].
    + split; [discriminate|]. intros H. assert (length r < k)%nat by lia. apply IH in H0. discriminate.
    + split; [|reflexivity]. intros _. assert (length r < k)%nat by now apply IH. lia.
Qed.

Lemma be_length k n : length (be k n) = k.
Proof. revert n; induction k as [|k IH]; intros n; cbn [be]; [reflexivity|]. rewrite app_length, IH. cbn. lia. Qed.

Lemma unbe_snoc l b : unbe (l ++ [b]) = unbe l * 256 + b.
Proof. unfold unbe. now rewrite fold_left_app. Qed.

Lemma unbe_be k n : unbe (be k n) = n mod 256 ^ N.of_nat k.
Proof.
  revert n; induction k as [|k IH]; intros n.
  - cbn. now rewrite N.mod_1_r.
  - cbn [be]. rewrite unbe_snoc, IH.
    replace (N.of_nat (S k)) with (N.succ (N.of_nat k)) by lia.
    rewrite N.pow_succ_r'.
    rewrite (N.mod_mul_r n 256 (256 ^ N.of_nat k)) by (try apply N.pow_nonzero; lia).
    lia.
Qed.

Lemma unbe_be_small k n : n < 256 ^ N.of_nat k -> unbe (be k n) = n.
Proof. intros H. rewrite unbe_be. now apply N.mod_small. Qed.

Lemma be_bytes k n : Forall (fun b => b < 256) (be k n).
Proof.
  revert n; induction k as [|k IH]; intros n; cbn [be]; [constructor|].
  apply Forall_app; split; [apply IH|]. constructor; [|constructor]. apply N.mod_lt. lia.
Qed.

Lemma rd_be_be k n rest : rd_be k (be k n ++ rest) = Some (n mod 256 ^ N.of_nat k, rest).
Proof.
  unfold rd_be. pose proof (take_app (be k n) rest) as H. rewrite be_length in H. rewrite H.
  now rewrite unbe_be.
Qed.

Lemma unle_le k n : unle (le k n) = n mod 256 ^ N.of_nat k.
Proof.
  revert n; induction k as [|k IH]; intros n.
  - cbn. now rewrite N.mod_1_r.
  - cbn [le unle]. rewrite IH.
    replace (N.of_nat (S k)) with (N.succ (N.of_nat k)) by lia.
    rewrite N.pow_succ_r'.
    rewrite (N.mod_mul_r n 256 (256 ^ N.of_nat k)) by (try apply N.pow_nonzero; lia).
    lia.
Qed.

Lemma le_length k n : length (le k n) = k.
Proof. revert n; induction k as [|k IH]; intros n; cbn [le length]; [reflexivity|]. now rewrite IH. Qed.
