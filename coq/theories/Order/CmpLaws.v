(* Laws of the term order that hold for ALL terms: antisymmetry and reflexivity of cmp_owned (hence of Ord for OwnedTerm),
   and independence of the order from anything but the values of the rank function (hence the borrowed order is the
   owned order).  Transitivity does not hold (C11_refuted_transitivity). *)
From EDP Require Import Base.Bytes Base.F64 Term.Term Gen.Ranks Order.Cmp Order.CmpFacts.

Lemma cmp_mag_antisym m1 e1 m2 e2 : cmp_mag m1 e1 m2 e2 = CompOpp (cmp_mag m2 e2 m1 e1).
Proof. unfold cmp_mag. rewrite (Z.min_comm e2 e1). apply N.compare_antisym. Qed.

Lemma cmp_f64_antisym x y : cmp_f64 x y = CompOpp (cmp_f64 y x).
Proof.
  destruct x as [|nx|nx mx ex], y as [|ny|ny my ey]; cbn [cmp_f64 CompOpp]; try reflexivity.
  - destruct nx, ny; reflexivity.
  - destruct nx; reflexivity.
  - destruct ny; reflexivity.
  - rewrite (andb_comm (my =? 0) (mx =? 0)). destruct (mx =? 0) eqn:E1, (my =? 0) eqn:E2; cbn [andb CompOpp].
    + reflexivity.
    + destruct ny; reflexivity.
    + destruct nx; reflexivity.
    + destruct nx, ny; cbn [CompOpp]; try reflexivity; [rewrite (cmp_mag_antisym my ey mx ex), CompOpp_involutive; reflexivity|apply cmp_mag_antisym].
Qed.

Lemma cmp_float_antisym a b : cmp_float a b = CompOpp (cmp_float b a).
Proof.
  unfold cmp_float. destruct (is_nan (f64_of_bits a)) eqn:Ea, (is_nan (f64_of_bits b)) eqn:Eb; cbn [andb CompOpp]; try reflexivity.
  apply cmp_f64_antisym.
Qed.

(* the local list walks of cmp, named *)
Section Z.
  Variable rank : term -> N.
  Definition zipc := fix go (l1 l2 : list term) {struct l1} : comparison :=
    match l1, l2 with
    | x :: r1, y :: r2 => match cmp rank x y with Eq => go r1 r2 | c => c end
    | _, _ => Eq
    end.
  Definition zipk := fix gok (m1 m2 : list (term * term)) {struct m1} : comparison :=
    match m1, m2 with
    | kv1 :: r1, kv2 :: r2 => match cmp rank (fst kv1) (fst kv2) with Eq => gok r1 r2 | c => c end
    | _, _ => Eq
    end.
  Definition zipv := fix gov (m1 m2 : list (term * term)) {struct m1} : comparison :=
    match m1, m2 with
    | kv1 :: r1, kv2 :: r2 => match cmp rank (snd kv1) (snd kv2) with Eq => gov r1 r2 | c => c end
    | _, _ => Eq
    end.

  Definition AS (a : term) : Prop := forall b, cmp rank a b = CompOpp (cmp rank b a).

  Lemma zipc_antisym l1 : Forall AS l1 -> forall l2, zipc l1 l2 = CompOpp (zipc l2 l1).
  Proof.
    induction 1 as [|x l1 Hx _ IH]; intros [|y l2]; try reflexivity. cbn [zipc]. rewrite (Hx y).
    destruct (cmp rank y x); cbn [CompOpp]; try reflexivity. apply IH.
  Qed.
  Lemma zipk_antisym m1 : Forall (fun kv => AS (fst kv) /\ AS (snd kv)) m1 -> forall m2, zipk m1 m2 = CompOpp (zipk m2 m1).
  Proof.
    induction 1 as [|x l1 [Hx _] _ IH]; intros [|y l2]; try reflexivity. cbn [zipk]. rewrite (Hx (fst y)).
    destruct (cmp rank (fst y) (fst x)); cbn [CompOpp]; try reflexivity. apply IH.
  Qed.
  Lemma zipv_antisym m1 : Forall (fun kv => AS (fst kv) /\ AS (snd kv)) m1 -> forall m2, zipv m1 m2 = CompOpp (zipv m2 m1).
  Proof.
    induction 1 as [|x l1 [_ Hx] _ IH]; intros [|y l2]; try reflexivity. cbn [zipv]. rewrite (Hx (snd y)).
    destruct (cmp rank (snd y) (snd x)); cbn [CompOpp]; try reflexivity. apply IH.
  Qed.
End Z.

Lemma cmp_unfold rank a b : cmp rank a b =
  match (rank a ?= rank b) with
  | Eq =>
      match a, b with
      | TTuple l1, TTuple l2 => thn (cmp_len l1 l2) (zipc rank l1 l2)
      | TMap m1, TMap m2 => thn (cmp_len m1 m2) (thn (zipk rank m1 m2) (zipv rank m1 m2))
      | TList l1, TList l2 => thn (zipc rank l1 l2) (cmp_len l1 l2)
      | TImproper l1 t1, TImproper l2 t2 => thn (zipc rank l1 l2) (thn (cmp_len l1 l2) (cmp rank t1 t2))
      | TIntFun _ u1 i1 _ m1 oi1 ou1 p1 fr1, TIntFun _ u2 i2 _ m2 oi2 ou2 p2 fr2 =>
          thn (cmp_bytes m1 m2) (thn (oi1 ?= oi2) (thn (ou1 ?= ou2) (thn (i1 ?= i2) (thn (cmp_bytes u1 u2)
            (thn (cmp_pid p1 p2) (thn (zipc rank fr1 fr2) (cmp_len fr1 fr2)))))))
      | _, _ => cmp rank a b
      end
  | c => c
  end.
Proof.
  destruct a, b; cbn [cmp]; destruct (rank _ ?= rank _); try reflexivity.
Qed.

Ltac rank_red :=
  repeat match goal with
  | |- context [N.compare (rank_owned ?a) (rank_owned ?b)] =>
      let c := eval vm_compute in (N.compare (rank_owned a) (rank_owned b)) in
      change (N.compare (rank_owned a) (rank_owned b)) with c
  end.

Lemma N_cmp_antisym (x y : N) : (x ?= y) = CompOpp (y ?= x).
Proof. apply N.compare_antisym. Qed.
Lemma Z_cmp_antisym (x y : Z) : (x ?= y)%Z = CompOpp (y ?= x)%Z.
Proof. apply Z.compare_antisym. Qed.

Ltac opp_thn := repeat rewrite thn_opp.

Theorem cmp_owned_antisym : forall a0 t2, cmp_owned a0 t2 = CompOpp (cmp_owned t2 a0).
Proof.
  unfold cmp_owned. intros a0. induction a0 using term_ind'; intros t2.
  all: rewrite (cmp_unfold rank_owned _ t2), (cmp_unfold rank_owned t2 _).
  all: destruct t2; rank_red; cbn iota; cbn [CompOpp]; try reflexivity.
  all: try (cbn [cmp]; rank_red; cbn iota).
  all: opp_thn.
  (* leaves *)
  all: try apply cmp_bytes_antisym.
  all: try apply Z_cmp_antisym.
  all: try (rewrite CompOpp_involutive; reflexivity).
  all: try apply cmp_big_antisym.
  all: try apply cmp_float_antisym.
  all: try apply cmp_pid_antisym.
  all: repeat rewrite <- cmp_bytes_antisym; repeat rewrite <- N_cmp_antisym; repeat rewrite <- Z_cmp_antisym;
       repeat rewrite <- cmp_pid_antisym; repeat rewrite <- (cmp_len_antisym); try reflexivity.
  all: try (match goal with H : Forall _ ?l |- context [zipc rank_owned ?l ?l0] => rewrite (zipc_antisym rank_owned l H l0) end; try reflexivity).
  all: try (match goal with |- match ?l with _ => _ end = _ => destruct l; reflexivity end).
  - now rewrite IHa0.
  - rewrite (zipk_antisym rank_owned kvs H kvs0), (zipv_antisym rank_owned kvs H kvs0). reflexivity.
Qed.

(* reflexivity: every term compares Equal to itself *)
Lemma cmp_mag_refl m e : cmp_mag m e m e = Eq.
Proof. unfold cmp_mag. apply N.compare_refl. Qed.
Lemma cmp_f64_refl x : cmp_f64 x x = Eq.
Proof.
  destruct x as [|n|n m e]; cbn [cmp_f64]; try reflexivity.
  - now rewrite Bool.eqb_reflx.
  - destruct (m =? 0) eqn:E; cbn [andb]; [reflexivity|]. destruct n; cbn [CompOpp]; rewrite cmp_mag_refl; reflexivity.
Qed.
Lemma cmp_float_refl a : cmp_float a a = Eq.
Proof. unfold cmp_float. destruct (is_nan (f64_of_bits a)); cbn [andb]; [reflexivity|apply cmp_f64_refl]. Qed.

Lemma zipc_refl rank l : Forall (fun x => cmp rank x x = Eq) l -> zipc rank l l = Eq.
Proof. induction 1 as [|x l Hx _ IH]; [reflexivity|]. cbn [zipc]. now rewrite Hx. Qed.
Lemma zipk_refl rank m : Forall (fun kv => cmp rank (fst kv) (fst kv) = Eq /\ cmp rank (snd kv) (snd kv) = Eq) m -> zipk rank m m = Eq.
Proof. induction 1 as [|x l [Hx _] _ IH]; [reflexivity|]. cbn [zipk]. now rewrite Hx. Qed.
Lemma zipv_refl rank m : Forall (fun kv => cmp rank (fst kv) (fst kv) = Eq /\ cmp rank (snd kv) (snd kv) = Eq) m -> zipv rank m m = Eq.
Proof. induction 1 as [|x l [_ Hx] _ IH]; [reflexivity|]. cbn [zipv]. now rewrite Hx. Qed.
Lemma cmp_len_refl {A} (l : list A) : cmp_len l l = Eq.
Proof. unfold cmp_len. apply N.compare_refl. Qed.
Lemma cmp_big_refl n d : cmp_big n d n d = Eq.
Proof. unfold cmp_big. destruct n; rewrite cmp_len_refl, cmp_bytes_refl; reflexivity. Qed.

Theorem cmp_owned_refl : forall a0, cmp_owned a0 a0 = Eq.
Proof.
  unfold cmp_owned. intros a0. induction a0 using term_ind'.
  all: rewrite (cmp_unfold rank_owned); rewrite N.compare_refl.
  all: try (cbn [cmp]; rewrite N.compare_refl).
  all: rewrite ?cmp_bytes_refl, ?Z.compare_refl, ?N.compare_refl, ?cmp_pid_refl, ?cmp_len_refl, ?cmp_big_refl, ?cmp_float_refl; cbn [thn]; try reflexivity.
  - now rewrite (zipc_refl _ _ H).
  - now rewrite (zipc_refl _ _ H), IHa0.
  - now rewrite (zipk_refl _ _ H), (zipv_refl _ _ H).
  - exact (zipc_refl _ _ H).
  - now rewrite (zipc_refl _ _ H).
Qed.

(* the order only depends on the rank function through its values: two rank functions that agree everywhere give the
   same comparison *)
Lemma zipc_ext r1 r2 l1 : Forall (fun x => forall y, cmp r1 x y = cmp r2 x y) l1 -> forall l2, zipc r1 l1 l2 = zipc r2 l1 l2.
Proof. induction 1 as [|x l1 Hx _ IH]; intros [|y l2]; try reflexivity. cbn [zipc]. rewrite (Hx y), IH. reflexivity. Qed.
Lemma zipk_ext r1 r2 m1 : Forall (fun kv => (forall y, cmp r1 (fst kv) y = cmp r2 (fst kv) y) /\ (forall y, cmp r1 (snd kv) y = cmp r2 (snd kv) y)) m1 ->
  forall m2, zipk r1 m1 m2 = zipk r2 m1 m2.
Proof. induction 1 as [|x l1 [Hx _] _ IH]; intros [|y l2]; try reflexivity. cbn [zipk]. rewrite (Hx (fst y)), IH. reflexivity. Qed.
Lemma zipv_ext r1 r2 m1 : Forall (fun kv => (forall y, cmp r1 (fst kv) y = cmp r2 (fst kv) y) /\ (forall y, cmp r1 (snd kv) y = cmp r2 (snd kv) y)) m1 ->
  forall m2, zipv r1 m1 m2 = zipv r2 m1 m2.
Proof. induction 1 as [|x l1 [_ Hx] _ IH]; intros [|y l2]; try reflexivity. cbn [zipv]. rewrite (Hx (snd y)), IH. reflexivity. Qed.

Theorem cmp_rank_ext r1 r2 : (forall t, r1 t = r2 t) -> forall a0 t2, cmp r1 a0 t2 = cmp r2 a0 t2.
Proof.
  intros Hr a0. induction a0 using term_ind'; intros t2.
  all: rewrite (cmp_unfold r1 _ t2), (cmp_unfold r2 _ t2), !Hr.
  all: destruct (r2 _ ?= r2 t2); try reflexivity.
  all: destruct t2; try reflexivity.
  all: try (cbn [cmp]; rewrite !Hr; reflexivity).
  - now rewrite (zipc_ext r1 r2 l H).
  - now rewrite (zipc_ext r1 r2 l H), IHa0.
  - now rewrite (zipk_ext r1 r2 kvs H), (zipv_ext r1 r2 kvs H).
  - now rewrite (zipc_ext r1 r2 l H).
  - now rewrite (zipc_ext r1 r2 fr H).
Qed.
