(* The fields the code compares, hashes and orders identifiers by (Gen/HashFields.v, read from types.rs / term.rs by the
   translator) are the fields the model uses in alleq / hstream / cmp_owned: the preserved LOCAL_EXT bytes take part in
   none of them, and ==, hash and order look at the same fields. *)
From Coq Require Import List String Bool.
From EDP Require Import Gen.HashFields.
Import ListNotations.
Open Scope string_scope.

(* what Order/Cmp.v (cmp_pid, cmp_owned), Order/EqLaws.v (alleq) and Order/HashStream.v (hpid, hstream) use; the fields of ==
   and of the hash as sets (sorted by name), those of the order in comparison order *)
Definition model_id_fields : list (string * list string * list string * list string) :=
  [("ExternalPid", ["creation"; "id"; "node"; "serial"], ["creation"; "id"; "node"; "serial"], ["node"; "id"; "serial"; "creation"]);
   ("ExternalPort", ["creation"; "id"; "node"], ["creation"; "id"; "node"], ["node"; "id"; "creation"]);
   ("ExternalReference", ["creation"; "ids"; "node"], ["creation"; "ids"; "node"], ["node"; "creation"; "ids"])].
Definition model_fun_hash_fields : list string :=
  ["arity"; "free_vars"; "index"; "module"; "num_free"; "old_index"; "old_uniq"; "pid"; "uniq"].

Fixpoint sl_eqb (a b : list string) : bool :=
  match a, b with
  | [], [] => true
  | x :: r, y :: s => String.eqb x y && sl_eqb r s
  | _, _ => false
  end.

(* ==, hash and order of one identifier type look at the same fields, and never at the preserved bytes *)
Definition row_lawful (r : string * list string * list string * list string) : bool :=
  let '(_, e, h, o) := r in
  sl_eqb e h && forallb (fun f => existsb (String.eqb f) o) e && forallb (fun f => existsb (String.eqb f) e) o &&
  negb (existsb (String.eqb "local_ext_bytes") e).

Lemma identifier_fields_lawful : forallb row_lawful id_fields = true.
Proof. vm_compute. reflexivity. Qed.

Lemma code_hashes_what_the_model_hashes :
  id_fields = model_id_fields /\ fun_hash_fields = model_fun_hash_fields /\ float_hash_folds_zeros = true.
Proof. repeat split; reflexivity. Qed.
