(* C12 — comparison agrees with Erlang's standard term order.
   Stage reached: the rank order and the leaf orders are proved against the specification for all values of those
   kinds; every recorded deviation class has a refutation witness; containers compare in the shape the specification
   prescribes (tuples by size then elements, lists by elements then length, bit strings by bytes then bit count, maps by
   size then keys then values) for all terms; that their elements in turn compare as Erlang orders them is, beyond the
   leaf theorems, the exhaustive pair check of the correspondence run against an exact Python reference. *)
From EDP Require Import Base.Bytes Base.F64 Term.Term Gen.Ranks Order.Cmp Order.CmpFacts Order.CmpLaws Order.NumLaws Order.Key Term.Value.

(* Erlang: number < atom < reference < fun < port < pid < tuple < map < nil/list < bit string — both generated tables *)
Definition spec_rank (t : term) : N :=
  match t with
  | TInt _ | TBig _ _ | TFloat _ => 0 | TAtom _ => 1 | TRef _ _ _ _ => 2 | TExtFun _ _ _ | TIntFun _ _ _ _ _ _ _ _ _ => 3
  | TPort _ _ _ _ => 4 | TPid _ => 5 | TTuple _ => 6 | TMap _ => 7 | TNil | TList _ | TImproper _ _ => 8
  | TBin _ | TBitBin _ _ | TStr _ => 9
  end.

Theorem C12_rank_table_is_erlangs : forall t, rank_owned t = spec_rank t /\ rank_borrowed t = spec_rank t.
Proof. destruct t; split; vm_compute; reflexivity. Qed.

Theorem C12_rank_decides : forall a b, spec_rank a < spec_rank b -> cmp_owned a b = Lt /\ cmp_owned b a = Gt.
Proof.
  intros a b H. unfold cmp_owned.
  assert (Hab : (rank_owned a ?= rank_owned b) = Lt).
  { destruct (C12_rank_table_is_erlangs a) as [-> _]. destruct (C12_rank_table_is_erlangs b) as [-> _]. now apply N.compare_lt_iff. }
  split.
  - rewrite cmp_rank; [exact Hab|rewrite Hab; discriminate].
  - rewrite cmp_rank; rewrite N.compare_antisym, Hab; [reflexivity|discriminate].
Qed.

(* leaves: small integers by value, atoms / binaries by their bytes (UTF-8 byte order = code point order) *)
Theorem C12_integers_exact : forall x y, cmp_owned (TInt x) (TInt y) = (x ?= y)%Z.
Proof. reflexivity. Qed.

Theorem C12_atoms_bytewise : forall x y, cmp_owned (TAtom x) (TAtom y) = cmp_bytes x y.
Proof. reflexivity. Qed.

Theorem C12_binaries_bytewise : forall x y, cmp_owned (TBin x) (TBin y) = cmp_bytes x y /\ cmp_owned (TStr x) (TBin y) = cmp_bytes x y.
Proof. split; reflexivity. Qed.

(* big integers of equal sign: by digit count, then from the most significant digit (fix commit 67afdb9) *)
Theorem C12_bigs_msd_first : forall d1 d2,
  cmp_owned (TBig false d1) (TBig false d2) = thn (cmp_len d1 d2) (cmp_bytes (rev d1) (rev d2)).
Proof. reflexivity. Qed.

(* the recorded deviation classes, each with a witness on the faithful model *)
(* integers compare by mathematical value across the two representations: any i64 against any big integer with minimal
   byte digits (what the decoder yields), in either order, and big integers among themselves *)
Theorem C12_integers_by_value_across_representations : forall a b, int_term a -> int_term b ->
  cmp_owned a b = (int_value a ?= int_value b)%Z.
Proof. exact integers_by_value. Qed.

(* the premises in the decidable form the well-formedness check uses, with witnesses at the i64 boundary *)
Theorem C12_int_term_decidable : forall n d, all_bytes d = true -> minimal_digits d = true -> d <> [] -> int_term (TBig n d).
Proof. intros n d A M Ne. cbn [int_term]. split; [now apply all_bytes_forall|]. split; [now apply minimal_digits_minimal|exact Ne]. Qed.

Example C12_integers_by_value_example :
  int_term (TInt (-9223372036854775808)) /\ int_term (TBig true [0; 0; 0; 0; 0; 0; 0; 128]) /\ int_term (TBig false [1; 0; 0; 0; 0; 0; 0; 0; 1]) /\
  cmp_owned (TInt (-9223372036854775808)) (TBig true [0; 0; 0; 0; 0; 0; 0; 128]) = Eq /\
  cmp_owned (TInt 9223372036854775807) (TBig false [1; 0; 0; 0; 0; 0; 0; 0; 1]) = Lt.
Proof.
  repeat split; try (vm_compute; reflexivity); try (cbn; lia); try discriminate.
  all: repeat constructor; try (vm_compute; reflexivity); try (unfold minimal; cbn; discriminate).
Qed.

(* ---- containers ---- *)
(* the textbook lexicographic comparison over the common prefix *)
Fixpoint lex (c : term -> term -> comparison) (l1 l2 : list term) : comparison :=
  match l1, l2 with
  | x :: r1, y :: r2 => thn (c x y) (lex c r1 r2)
  | _, _ => Eq
  end.

Lemma zipc_lex rank : forall l1 l2, zipc rank l1 l2 = lex (cmp rank) l1 l2.
Proof. induction l1 as [|x l1 IH]; intros [|y l2]; try reflexivity. cbn [zipc lex]. rewrite IH. unfold thn. destruct (cmp rank x y); reflexivity. Qed.

Theorem C12_tuples_size_then_elements : forall l1 l2,
  cmp_owned (TTuple l1) (TTuple l2) = thn (len l1 ?= len l2) (lex cmp_owned l1 l2).
Proof. intros. unfold cmp_owned. rewrite cmp_unfold. cbn [rank_owned]. rewrite N.compare_refl. now rewrite zipc_lex. Qed.

Theorem C12_lists_elements_then_length : forall l1 l2,
  cmp_owned (TList l1) (TList l2) = thn (lex cmp_owned l1 l2) (len l1 ?= len l2).
Proof. intros. unfold cmp_owned. rewrite cmp_unfold. cbn [rank_owned]. rewrite N.compare_refl. now rewrite zipc_lex. Qed.

Theorem C12_bitstrings_bytes_then_bits : forall x kx y ky,
  cmp_owned (TBitBin x kx) (TBitBin y ky) = thn (cmp_bytes x y) (kx ?= ky) /\
  cmp_owned (TBin x) (TBitBin y ky) = thn (cmp_bytes x y) (8 ?= ky) /\
  cmp_owned (TBitBin x kx) (TBin y) = thn (cmp_bytes x y) (kx ?= 8).
Proof. intros. repeat split; reflexivity. Qed.

Theorem C12_maps_size_keys_values : forall m1 m2,
  cmp_owned (TMap m1) (TMap m2) =
    thn (len m1 ?= len m2) (thn (lex cmp_owned (map fst m1) (map fst m2)) (lex cmp_owned (map snd m1) (map snd m2))).
Proof.
  intros. unfold cmp_owned. rewrite cmp_unfold. cbn [rank_owned]. rewrite N.compare_refl. f_equal. f_equal.
  - revert m2. induction m1 as [|kv m1 IH]; intros [|kv2 m2]; try reflexivity. cbn [zipk map lex]. rewrite IH. unfold thn. destruct (cmp rank_owned (fst kv) (fst kv2)); reflexivity.
  - revert m2. induction m1 as [|kv m1 IH]; intros [|kv2 m2]; try reflexivity. cbn [zipv map lex]. rewrite IH. unfold thn. destruct (cmp rank_owned (snd kv) (snd kv2)); reflexivity.
Qed.

(* on terms without floats and improper lists the whole comparison, at any nesting depth, is the standard term order
   written as one lexicographic order: type rank first (number < atom < reference < fun < port < pid < tuple < map < list
   < bit string), numbers by value, atoms and binaries by their bytes, tuples and maps by size first, lists element-wise
   with a proper prefix first, bit strings by bytes then bit count *)
Theorem C12_standard_order_on_the_lawful_class : forall a b, tcl a -> tcl b -> cmp_owned a b = kcmp (tkey a) (tkey b).
Proof. exact cmp_is_kcmp. Qed.

Theorem C12_refuted_lossy_int_float :
  cmp_owned (TInt 9007199254740993) (TFloat 4845873199050653696) = Eq.      (* 2^53+1 vs 2^53.0: Erlang says Gt *)
Proof. vm_compute. reflexivity. Qed.

Theorem C12_refuted_list_vs_improper :
  cmp_owned (TList [TInt 1]) (TImproper [TInt 1] (TInt 2)) = Eq.             (* [1] vs [1|2]: Erlang says Lt *)
Proof. vm_compute. reflexivity. Qed.

Theorem C12_refuted_improper_length :
  cmp_owned (TImproper [TInt 1; TInt 2] (TInt 3)) (TImproper [TInt 1] (TBin [])) = Gt.   (* [1,2|3] vs [1|<<>>]: Erlang says Lt *)
Proof. vm_compute. reflexivity. Qed.

Theorem C12_refuted_map_key_exact :
  cmp_owned (TMap [(TInt 1, TAtom [97])]) (TMap [(TFloat 4607182418800017408, TAtom [97])]) = Eq.   (* #{1=>a} vs #{1.0=>a}: Erlang says Lt *)
Proof. vm_compute. reflexivity. Qed.

Theorem C12_refuted_padded_big :      (* 7 in nine digits against 8, against 2^64-1 and against 7: Erlang says Lt, Lt, Eq *)
  cmp_owned (TBig false [7; 0; 0; 0; 0; 0; 0; 0; 0]) (TInt 8) = Gt /\
  cmp_owned (TBig false [7; 0; 0; 0; 0; 0; 0; 0; 0]) (TBig false [255; 255; 255; 255; 255; 255; 255; 255]) = Gt /\
  cmp_owned (TBig false [7; 0; 0; 0; 0; 0; 0; 0; 0]) (TInt 7) = Gt.
Proof. repeat split; vm_compute; reflexivity. Qed.

(* fixed classes stay fixed on the model *)
Theorem C12_fixed_binary_vs_bitstring : cmp_owned (TBin [1]) (TBitBin [1; 128] 1) = Lt /\ cmp_owned (TBitBin [1; 128] 1) (TBin [1]) = Gt.
Proof. split; vm_compute; reflexivity. Qed.
Theorem C12_fixed_map_keys_first :
  cmp_owned (TMap [(TInt 1, TInt 5); (TInt 2, TInt 0)]) (TMap [(TInt 1, TInt 3); (TInt 3, TInt 0)]) = Lt.
Proof. vm_compute. reflexivity. Qed.
Theorem C12_fixed_big_order : cmp_owned (TBig false [2; 0; 0; 0; 1]) (TBig false [0; 1; 0; 0; 1]) = Lt.   (* 2^32+2 < 2^32+256 *)
Proof. vm_compute. reflexivity. Qed.

Check C12_rank_decides.
