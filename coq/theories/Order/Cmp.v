(* Model of `impl Ord for OwnedTerm` (term.rs) — the same text modulo type names is `impl Ord for
   BorrowedTerm` (borrowed.rs).  Definitions only; every arm as coded, including the catch-all `Equal`
   and the lossy numeric helpers.  The rank table comes from Gen/Ranks.v. *)
From EDP Require Import Base.Bytes Base.F64 Term.Term Gen.Ranks.

Definition thn (c d : comparison) : comparison := match c with Eq => d | _ => c end.

(* slice / Vec<uN> / str comparison: lexicographic, shorter prefix first *)
Fixpoint cmp_bytes (a b : list N) : comparison :=
  match a, b with
  | [], [] => Eq
  | [], _ :: _ => Lt
  | _ :: _, [] => Gt
  | x :: r, y :: s => thn (x ?= y) (cmp_bytes r s)
  end.

Definition cmp_len {A B} (a : list A) (b : list B) : comparison := (len a ?= len b).

Definition rank_owned (t : term) : N :=
  match t with
  | TAtom _ => rank_atom | TInt _ => rank_integer | TFloat _ => rank_float | TPid _ => rank_pid
  | TPort _ _ _ _ => rank_port | TRef _ _ _ _ => rank_reference | TBin _ => rank_binary
  | TBitBin _ _ => rank_bitbinary | TStr _ => rank_string | TList _ => rank_list
  | TImproper _ _ => rank_improperlist | TMap _ => rank_map | TTuple _ => rank_tuple
  | TBig _ _ => rank_bigint | TExtFun _ _ _ => rank_externalfun
  | TIntFun _ _ _ _ _ _ _ _ _ => rank_internalfun | TNil => rank_nil
  end.

Definition rank_borrowed (t : term) : N :=
  match t with
  | TAtom _ => brank_atom | TInt _ => brank_integer | TFloat _ => brank_float | TPid _ => brank_pid
  | TPort _ _ _ _ => brank_port | TRef _ _ _ _ => brank_reference | TBin _ => brank_binary
  | TBitBin _ _ => brank_bitbinary | TStr _ => brank_string | TList _ => brank_list
  | TImproper _ _ => brank_improperlist | TMap _ => brank_map | TTuple _ => brank_tuple
  | TBig _ _ => brank_bigint | TExtFun _ _ _ => brank_externalfun
  | TIntFun _ _ _ _ _ _ _ _ _ => brank_internalfun | TNil => brank_nil
  end.

(* bigint_to_u64: the first 8 little-endian digits *)
Definition big_to_u64 (d : bytes) : N := unle (firstn 8 d).

Definition cmp_int_big (i : Z) (neg : bool) (d : bytes) : comparison :=
  match d with
  | [] => (i ?= 0)%Z
  | _ =>
    if neg then
      if (0 <=? i)%Z then Gt
      else if 8 <? len d then Gt
      else CompOpp (Z.to_N (- i) ?= big_to_u64 d)
    else
      if (i <? 0)%Z then Lt
      else if 8 <? len d then Lt
      else (Z.to_N i ?= big_to_u64 d)
  end.

Definition cmp_big (n1 : bool) (d1 : bytes) (n2 : bool) (d2 : bytes) : comparison :=
  match n1, n2 with
  | false, true => Gt
  | true, false => Lt
  | false, false => thn (cmp_len d1 d2) (cmp_bytes (rev d1) (rev d2))
  | true, true => CompOpp (thn (cmp_len d1 d2) (cmp_bytes (rev d1) (rev d2)))
  end.

Definition cmp_int_float (i : Z) (fb : N) : comparison :=
  let f := f64_of_bits fb in
  if is_nan f then Lt else cmp_f64 (f64_of_z i) f.

Definition cmp_big_float (neg : bool) (d : bytes) (fb : N) : comparison :=
  let f := f64_of_bits fb in
  if is_nan f then Lt else cmp_f64 (big_to_f64 neg d) f.

Definition cmp_float (a b : N) : comparison :=
  let x := f64_of_bits a in let y := f64_of_bits b in
  if is_nan x && is_nan y then Eq
  else if is_nan x then Gt
  else if is_nan y then Lt
  else cmp_f64 x y.

Definition cmp_pid (a b : pidr) : comparison :=
  thn (cmp_bytes (pnode a) (pnode b)) (thn (pnum a ?= pnum b) (thn (pserial a ?= pserial b) (pcreation a ?= pcreation b))).

Section WithRank.
  Variable rank : term -> N.

  Fixpoint cmp (a b : term) {struct a} : comparison :=
    let zip := fix go (l1 l2 : list term) {struct l1} : comparison :=
      match l1, l2 with
      | x :: r1, y :: r2 => match cmp x y with Eq => go r1 r2 | c => c end
      | _, _ => Eq
      end in
    let zipk := fix gok (m1 m2 : list (term * term)) {struct m1} : comparison :=
      match m1, m2 with
      | kv1 :: r1, kv2 :: r2 => match cmp (fst kv1) (fst kv2) with Eq => gok r1 r2 | c => c end
      | _, _ => Eq
      end in
    let zipv := fix gov (m1 m2 : list (term * term)) {struct m1} : comparison :=
      match m1, m2 with
      | kv1 :: r1, kv2 :: r2 => match cmp (snd kv1) (snd kv2) with Eq => gov r1 r2 | c => c end
      | _, _ => Eq
      end in
    match (rank a ?= rank b) with
    | Eq =>
      match a, b with
      | TInt x, TInt y => (x ?= y)%Z
      | TInt x, TBig n d => cmp_int_big x n d
      | TBig n d, TInt y => CompOpp (cmp_int_big y n d)
      | TBig n1 d1, TBig n2 d2 => cmp_big n1 d1 n2 d2
      | TInt x, TFloat f => cmp_int_float x f
      | TFloat f, TInt y => CompOpp (cmp_int_float y f)
      | TBig n d, TFloat f => cmp_big_float n d f
      | TFloat f, TBig n d => CompOpp (cmp_big_float n d f)
      | TFloat x, TFloat y => cmp_float x y
      | TAtom x, TAtom y => cmp_bytes x y
      | TRef n1 c1 i1 _, TRef n2 c2 i2 _ => thn (cmp_bytes n1 n2) (thn (c1 ?= c2) (cmp_bytes i1 i2))
      | TExtFun m1 f1 a1, TExtFun m2 f2 a2 => thn (cmp_bytes m1 m2) (thn (cmp_bytes f1 f2) (a1 ?= a2))
      | TIntFun _ u1 i1 _ m1 oi1 ou1 p1 fr1, TIntFun _ u2 i2 _ m2 oi2 ou2 p2 fr2 =>
          thn (cmp_bytes m1 m2) (thn (oi1 ?= oi2) (thn (ou1 ?= ou2) (thn (i1 ?= i2) (thn (cmp_bytes u1 u2)
            (thn (cmp_pid p1 p2) (thn (zip fr1 fr2) (cmp_len fr1 fr2)))))))
      | TExtFun _ _ _, TIntFun _ _ _ _ _ _ _ _ _ => Lt
      | TIntFun _ _ _ _ _ _ _ _ _, TExtFun _ _ _ => Gt
      | TPort n1 i1 c1 _, TPort n2 i2 c2 _ => thn (cmp_bytes n1 n2) (thn (i1 ?= i2) (c1 ?= c2))
      | TPid p1, TPid p2 => cmp_pid p1 p2
      | TTuple l1, TTuple l2 => thn (cmp_len l1 l2) (zip l1 l2)
      | TMap m1, TMap m2 => thn (cmp_len m1 m2) (thn (zipk m1 m2) (zipv m1 m2))
      | TNil, TNil => Eq
      | TList l1, TList l2 => thn (zip l1 l2) (cmp_len l1 l2)
      | TList l1, TNil => match l1 with [] => Eq | _ => Gt end
      | TNil, TList l2 => match l2 with [] => Eq | _ => Lt end
      | TImproper l1 t1, TImproper l2 t2 => thn (zip l1 l2) (thn (cmp_len l1 l2) (cmp t1 t2))
      | TBin x, TBin y => cmp_bytes x y
      | TStr x, TStr y => cmp_bytes x y
      | TBin x, TStr y => cmp_bytes x y
      | TStr x, TBin y => cmp_bytes x y
      | TBitBin x kx, TBitBin y ky => thn (cmp_bytes x y) (kx ?= ky)
      | TBin x, TBitBin y ky => thn (cmp_bytes x y) (8 ?= ky)
      | TBitBin x kx, TBin y => thn (cmp_bytes x y) (kx ?= 8)
      | TStr x, TBitBin y ky => thn (cmp_bytes x y) (8 ?= ky)
      | TBitBin x kx, TStr y => thn (cmp_bytes x y) (kx ?= 8)
      | _, _ => Eq
      end
    | c => c
    end.
End WithRank.

Definition cmp_owned := cmp rank_owned.
Definition cmp_borrowed := cmp rank_borrowed.

(* ---------- BTreeMap<term, term> as a sorted association list ---------- *)
(* insert: equal key => value replaced, old key kept (BTreeMap::insert) *)
Fixpoint map_insert (c : term -> term -> comparison) (k v : term) (m : list (term * term)) : list (term * term) :=
  match m with
  | [] => [(k, v)]
  | (k', v') :: r =>
      match c k k' with
      | Lt => (k, v) :: m
      | Eq => (k', v) :: r
      | Gt => (k', v') :: map_insert c k v r
      end
  end.

Definition map_of_list (c : term -> term -> comparison) (kvs : list (term * term)) : list (term * term) :=
  fold_left (fun m kv => map_insert c (fst kv) (snd kv) m) kvs [].

(* ---------- derived PartialEq (identifiers by logical fields; f64 ==) ---------- *)
Definition eq_bytes (a b : list N) : bool := match cmp_bytes a b with Eq => true | _ => false end.

Definition f64_eqb (a b : N) : bool :=
  let x := f64_of_bits a in let y := f64_of_bits b in
  if is_nan x || is_nan y then false else match cmp_f64 x y with Eq => true | _ => false end.

Definition pid_eqb (a b : pidr) : bool :=
  eq_bytes (pnode a) (pnode b) && (pnum a =? pnum b) && (pserial a =? pserial b) && (pcreation a =? pcreation b).

Fixpoint teqb (a b : term) {struct a} : bool :=
  let all2 := fix go (l1 l2 : list term) {struct l1} : bool :=
    match l1, l2 with
    | [], [] => true
    | x :: r1, y :: r2 => teqb x y && go r1 r2
    | _, _ => false
    end in
  let all2m := fix gom (m1 m2 : list (term * term)) {struct m1} : bool :=
    match m1, m2 with
    | [], [] => true
    | (k1, v1) :: r1, (k2, v2) :: r2 => teqb k1 k2 && teqb v1 v2 && gom r1 r2
    | _, _ => false
    end in
  match a, b with
  | TAtom x, TAtom y => eq_bytes x y
  | TInt x, TInt y => (x =? y)%Z
  | TFloat x, TFloat y => f64_eqb x y
  | TPid p, TPid q => pid_eqb p q
  | TPort n1 i1 c1 _, TPort n2 i2 c2 _ => eq_bytes n1 n2 && (i1 =? i2) && (c1 =? c2)
  | TRef n1 c1 i1 _, TRef n2 c2 i2 _ => eq_bytes n1 n2 && (c1 =? c2) && eq_bytes i1 i2
  | TBin x, TBin y => eq_bytes x y
  | TBitBin x kx, TBitBin y ky => eq_bytes x y && (kx =? ky)
  | TStr x, TStr y => eq_bytes x y
  | TList l1, TList l2 => all2 l1 l2
  | TImproper l1 t1, TImproper l2 t2 => all2 l1 l2 && teqb t1 t2
  | TMap m1, TMap m2 => all2m m1 m2
  | TTuple l1, TTuple l2 => all2 l1 l2
  | TBig n1 d1, TBig n2 d2 => Bool.eqb n1 n2 && eq_bytes d1 d2
  | TExtFun m1 f1 a1, TExtFun m2 f2 a2 => eq_bytes m1 m2 && eq_bytes f1 f2 && (a1 =? a2)
  | TIntFun a1 u1 i1 nf1 m1 oi1 ou1 p1 fr1, TIntFun a2 u2 i2 nf2 m2 oi2 ou2 p2 fr2 =>
      (a1 =? a2) && eq_bytes u1 u2 && (i1 =? i2) && (nf1 =? nf2) && eq_bytes m1 m2 && (oi1 =? oi2)
      && (ou1 =? ou2) && pid_eqb p1 p2 && all2 fr1 fr2
  | TNil, TNil => true
  | _, _ => false
  end.
