//! The gen_server behaviour (C18, last clause): a `GenServerProcess` around an instrumented server runs in the
//! library's own process loop (`spawn_process`) with a registry of its own — no node, no EPMD.  The callers are
//! mailboxes registered (or not) in that registry; what each caller finds in its mailbox afterwards is the output.
use crate::conn::runtime;
use crate::termio::{Toks, read_term, term_str};
use edp_node::mailbox::{Mailbox, Message};
use edp_node::process::{ProcessHandle, spawn_process};
use edp_node::registry::ProcessRegistry;
use edp_node::{CallResult, GenServer, GenServerProcess};
use erltf::OwnedTerm;
use erltf::types::{Atom, ExternalPid};
use std::sync::{Arc, Mutex};
use std::time::Duration;

struct Probe {
    log: Arc<Mutex<Vec<String>>>,
}

fn fails(t: &OwnedTerm) -> bool {
    t.is_atom_with_name("fail")
}

impl GenServer for Probe {
    async fn init(&mut self, _args: Vec<OwnedTerm>) -> edp_node::Result<()> {
        Ok(())
    }
    async fn handle_call(&mut self, msg: OwnedTerm, from: ExternalPid) -> edp_node::Result<CallResult> {
        self.log.lock().unwrap().push(format!("C {} {}", term_str(&msg), term_str(&OwnedTerm::Pid(from))));
        if msg.is_atom_with_name("noreply") {
            Ok(CallResult::NoReply)
        } else if fails(&msg) {
            Err(edp_node::Error::MailboxClosed)
        } else {
            Ok(CallResult::Reply(OwnedTerm::Tuple(vec![OwnedTerm::Atom(Atom::new("ok")), msg])))
        }
    }
    async fn handle_cast(&mut self, msg: OwnedTerm) -> edp_node::Result<()> {
        self.log.lock().unwrap().push(format!("K {}", term_str(&msg)));
        if fails(&msg) { Err(edp_node::Error::MailboxClosed) } else { Ok(()) }
    }
    async fn handle_info(&mut self, msg: OwnedTerm) -> edp_node::Result<()> {
        self.log.lock().unwrap().push(format!("I {}", term_str(&msg)));
        if fails(&msg) { Err(edp_node::Error::MailboxClosed) } else { Ok(()) }
    }
    async fn terminate(&mut self, reason: OwnedTerm) {
        self.log.lock().unwrap().push(format!("T {}", term_str(&reason)));
    }
}

fn caller(k: usize) -> ExternalPid {
    ExternalPid::new(Atom::new("c@h"), 100 + k as u32, 0, 1)
}

async fn run(mask: &str, steps: Vec<String>) -> String {
    let registry = Arc::new(ProcessRegistry::new());
    let mut boxes: Vec<Mailbox> = Vec::new();
    for (k, c) in mask.chars().enumerate() {
        let mb = Mailbox::with_capacity(4096);
        if c == '1' {
            registry.insert(caller(k), ProcessHandle::new(caller(k), mb.sender())).await;
        }
        boxes.push(mb);
    }
    let log = Arc::new(Mutex::new(Vec::new()));
    let server_pid = ExternalPid::new(Atom::new("c@h"), 99, 0, 1);
    let process = GenServerProcess::new(Probe { log: log.clone() }, registry.clone());
    let handle = spawn_process(process, Mailbox::with_capacity(4096), registry.clone(), server_pid.clone()).await;
    registry.insert(server_pid.clone(), handle.clone()).await;
    let mut sent_ok = 0usize;
    for st in &steps {
        let mut t = Toks::new(st);
        let msg = match t.next() {
            "R" => Message::Regular { from: None, body: read_term(&mut t) },
            "X" => Message::Exit { from: caller(0), reason: read_term(&mut t) },
            "O" => Message::Link { from: caller(0) },
            other => panic!("bad gsrv step {other}"),
        };
        if handle.send(msg).await.is_ok() {
            sent_ok += 1;
        }
    }
    // a marker cast behind everything: the loop is done with the script when it shows up, or when the process is gone
    let marker = OwnedTerm::Tuple(vec![OwnedTerm::Atom(Atom::new("$gen_cast")), OwnedTerm::Atom(Atom::new("$end_of_script"))]);
    let _ = handle.send(Message::Regular { from: None, body: marker }).await;
    let _ = sent_ok;
    let end = format!("K {}", term_str(&OwnedTerm::Atom(Atom::new("$end_of_script"))));
    let mut alive = true;
    for _ in 0..2000 {
        if log.lock().unwrap().iter().any(|l| *l == end) {
            break;
        }
        if registry.get(&server_pid).await.is_none() {
            alive = false;
            break;
        }
        tokio::time::sleep(Duration::from_millis(1)).await;
    }
    tokio::time::sleep(Duration::from_millis(2)).await;
    let events: Vec<String> = log.lock().unwrap().iter().filter(|l| **l != end).cloned().collect();
    let join = |l: Vec<String>| if l.is_empty() { "-".to_string() } else { l.join(" , ") };
    let mut out = vec![format!("alive={}", if alive { 1 } else { 0 }), format!("log={}", join(events))];
    for (k, mb) in boxes.iter_mut().enumerate() {
        let mut got = Vec::new();
        while let Ok(m) = mb.try_recv() {
            got.push(match m {
                Message::Regular { body, .. } => term_str(&body),
                other => format!("?{:?}", std::mem::discriminant(&other)),
            });
        }
        out.push(format!("c{}={}", k, join(got)));
    }
    out.join(" ;; ")
}

pub fn run_case(line: &str) -> String {
    let mut parts = line.split(" ;; ");
    let head = parts.next().expect("head");
    let mut t = Toks::new(head);
    assert_eq!(t.next(), "gsrv");
    let mask = t.next().to_string();
    let steps: Vec<String> = parts.map(|s| s.to_string()).collect();
    runtime().block_on(run(&mask, steps))
}
