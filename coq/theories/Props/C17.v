(* C17 — each remote call gets its own reply; nothing is left behind afterwards.
   Model: Node/Node.v — rpc_call_raw_with_timeout as ORpc (fresh reply identifier from the allocator, registration,
   request frame) with OExpire (timeouts), inbound replies as OFrame through route_message; after fix commit e365bbf.
   One operation = one API call or one inbound frame run to quiescence; the correspondence run drives a real Node
   with concurrent caller tasks against a scripted peer. *)
From EDP Require Import Base.Bytes Term.Term Gen.PidConsts Codec.Decode Dist.PidAlloc Dist.Control Node.Node Node.NodeFacts.
From EDP Require Gen.LockScope Conc.AllocConc Node.OwnIdFacts.
Open Scope N_scope.

(* along every run (below the identifier wrap: fewer than 2^20 allocations) every call started is either pending or
   has returned — never both, never twice — and the reply identifiers of the pending calls are pairwise distinct *)
Theorem C17_bookkeeping : forall cfg ops name c conn,
  initial_next_id + N.of_nat (length ops) <= max_processes_per_node ->
  rpc_inv (run cfg (node_init name c conn) ops).
Proof. intros cfg ops name c conn H. apply rpc_inv_run; [apply rpc_inv_init|exact H]. Qed.

(* a reply is handed to the call whose reply identifier it names and to no other call; it leaves the table *)
Theorem C17_reply_goes_to_its_call : forall st fs body p rp i sh,
  pid_of (role 2 fs) = Some p -> find_proc p (n_procs st) = None ->
  find (fun e => same_key (fst e) p) (n_pending st) = Some (rp, (i, sh)) ->
  n_results (route st (CMsg 2 fs) (Some body)) = n_results st ++ [(i, RReply body)] /\
  n_pending (route st (CMsg 2 fs) (Some body)) = filter (fun e => negb (same_key (fst e) p)) (n_pending st) /\
  same_key rp p = true.
Proof. exact reply_goes_to_its_call. Qed.

(* a reply for a call that is unknown, has timed out or was already answered is dropped: nothing changes *)
Theorem C17_stray_reply_dropped : forall st fs body p,
  pid_of (role 2 fs) = Some p -> find_proc p (n_procs st) = None ->
  find (fun e => same_key (fst e) p) (n_pending st) = None -> route st (CMsg 2 fs) (Some body) = st.
Proof. exact unknown_recipient_dropped. Qed.

(* once every call has returned — reply, timeout, no connection, failed send — the table is empty *)
Theorem C17_nothing_left_behind : forall st, rpc_inv st ->
  (forall i, i < n_calls st -> In i (map fst (n_results st))) -> n_pending st = [].
Proof. exact all_returned_nothing_pending. Qed.

Example C17_example :
  let cfg := {| d_arms := Gen.DecoderArms.owned_arms; d_cache := []; d_refs := []; d_inflate := fun _ => None; d_float_text := fun _ => None;
                d_kcmp := Order.Cmp.cmp_owned; d_kinsert := Order.Cmp.map_insert; d_extra_fuel := 0 |} in
  let st := run cfg (node_init [110] 7 true) [ORpc true [109] [102] []; ORpc false [109] [102] []; OExpire] in
  n_calls st = 2 /\ map fst (n_results st) = [0] /\ length (n_pending st) = 1%nat.
Proof. cbv zeta. repeat split; vm_compute; reflexivity. Qed.

(* the reply identifiers of concurrent calls come from the node's allocator; that they are pairwise distinct under any
   interleaving of the callers is C16_concurrent_pids_unique, which rests on the allocator holding its lock across the
   whole allocation and on rpc_call_raw_with_timeout holding the connection's lock across its send — both re-read from
   the source by the translator *)
Theorem C17_reply_identifiers_rest_on_held_locks : forallb snd LockScope.lock_sites = true.
Proof. exact AllocConc.allocate_holds_its_lock. Qed.

(* along every run: no call returns twice, and a call that has returned is no longer waiting (so a second reply for
   it, a duplicate or a late one, finds nothing to be delivered to: C17_stray_reply_dropped) *)
Theorem C17_each_call_returns_at_most_once : forall cfg ops name c conn,
  initial_next_id + N.of_nat (length ops) <= max_processes_per_node ->
  let st := run cfg (node_init name c conn) ops in
  NoDup (map fst (n_results st)) /\ (forall i, In i (pend_calls st) -> ~ In i (map fst (n_results st))).
Proof. intros cfg ops name c conn H. exact (returned_once _ (C17_bookkeeping cfg ops name c conn H)). Qed.

(* along every run: every call the node is waiting for is addressed by the node's own name and the creation it was
   started with, so a reply addressed to another node or to an earlier incarnation of this one matches no waiting call *)
Theorem C17_waiting_calls_have_own_reply_address : forall name c cfg conn ops e,
  In e (n_pending (run cfg (node_init name c conn) ops)) -> pnode (fst e) = name /\ pcreation (fst e) = c.
Proof. exact OwnIdFacts.waiting_calls_have_own_reply_address. Qed.

Check C17_bookkeeping.
