#!/bin/sh
# usage: try_mutant.sh <patch.diff> <Cxx> [tier]  — applies the patch to /repo, runs the check, reverts.
set -u
P="$1"; ID="$2"; TIER="${3:-quick}"
if ! git -C /repo apply "$P" 2>/dev/null; then
  if ! git -C /repo apply --3way "$P" 2>/dev/null; then
    if ! (cd /repo && patch -p1 -F3 -s < "$P"); then git -C /repo reset -q --hard HEAD; echo "patch does not apply"; exit 2; fi
  fi
fi
# the evidence file describes the last run on the real tree: keep it across the run on the changed one
EV=/verif/evidence/$ID.json; [ -f "$EV" ] && cp "$EV" "$EV.keep"
cd /verif && ./check "$ID" --tier "$TIER"; RC=$?
[ -f "$EV.keep" ] && mv "$EV.keep" "$EV"
git -C /repo reset -q --hard HEAD; git -C /repo clean -qfd crates
echo "check exit=$RC"
exit 0
