(* The round trip of the encoder that writes cached atoms as ATOM_CACHE_REF (encode_term_impl with an atom index map,
   model enc_c) through the decoder whose reference list is the header's atom list: for every term, every header order. *)
From EDP Require Import Base.Bytes Term.Term Gen.Tags Gen.Limits Gen.DecoderArms Codec.Encode Codec.Decode Codec.DecodeFacts Codec.Norm Codec.RoundTrip Codec.DistHeader.

Lemma arm_atom_cache_ref : assoc tag_atom_cache_ref owned_arms = Some 31. Proof. vm_compute; reflexivity. Qed.

Lemma atom_index_found a : forall order k i, atom_index a order k = Some i ->
  k <= i /\ i < k + len order /\ nth_error order (N.to_nat (i - k)) = Some a.
Proof.
  induction order as [|x r IH]; intros k i H; [discriminate|]. cbn [atom_index] in H.
  destruct (list_eq_dec N.eq_dec x a) as [->|Hne].
  - inversion H; subst. unfold len. cbn [length]. rewrite N.sub_diag. cbn. repeat split; lia.
  - apply IH in H as (H1 & H2 & H3). unfold len in *. cbn [length]. repeat split; try lia.
    replace (N.to_nat (i - k)) with (S (N.to_nat (i - (k + 1)))) by lia. exact H3.
Qed.

Section RTC.
  Variable cfg : dcfg.
  Hypothesis Harms : d_arms cfg = owned_arms.
  Variable order : list bytes.
  Hypothesis Hrefs : d_refs cfg = order.
  Hypothesis Hmany : len order <= 256.
  Variable kc : term -> term -> comparison.
  Variable ki : (term -> term -> comparison) -> term -> term -> list (term * term) -> list (term * term).
  Hypothesis Hkc : d_kcmp cfg = kc.
  Hypothesis Hki : d_kinsert cfg = ki.

  Local Notation parse_S := (RoundTrip.parse_S cfg Harms).
  Local Notation p_atom := (RoundTrip.p_atom cfg Harms).
  Local Notation p_small_int := (RoundTrip.p_small_int cfg Harms).
  Local Notation p_int := (RoundTrip.p_int cfg Harms).
  Local Notation p_float := (RoundTrip.p_float cfg Harms).
  Local Notation p_bin := (RoundTrip.p_bin cfg Harms).
  Local Notation p_bitbin := (RoundTrip.p_bitbin cfg Harms).
  Local Notation p_big := (RoundTrip.p_big cfg Harms).
  Local Notation p_nil := (RoundTrip.p_nil cfg Harms).
  Local Notation p_local := (RoundTrip.p_local cfg Harms).
  Local Notation plain := (RoundTrip.roundtrip cfg Harms kc ki Hkc Hki).

  (* an atom's bytes, cached or not, read back as the atom *)
  Lemma enc_atom_c_ok a : wf_atom a = true -> atom_ok a ->
    exists b, enc_atom_c order a = EOk b /\ (2 <= length b)%nat /\
      forall f rest, parse cfg (S f) (b ++ rest) = POk (TAtom a) rest.
  Proof.
    intros Hw Ha. unfold enc_atom_c. destruct (atom_index a order 0) as [i|] eqn:E.
    - apply atom_index_found in E as (_ & Hi & Hn). rewrite N.sub_0_r in Hn.
      eexists. split; [reflexivity|]. split; [cbn; lia|]. intros f rest. cbn [app].
      rewrite parse_S, arm_atom_cache_ref. unfold parse_body. rewrite rd1. rewrite Hrefs.
      rewrite N.mod_small by lia. destruct order as [|o1 orest]; [destruct (N.to_nat i); discriminate|].
      now rewrite Hn.
    - destruct (enc_atom_ok a Ha) as (b & Eb & Lb). exists b. split; [exact Eb|]. split; [exact Lb|].
      intros f rest. now apply p_atom.
  Qed.

  Lemma p_pid_c f node id ser cr ba rest :
    id < 4294967296 -> ser < 4294967296 -> cr < 4294967296 ->
    (forall r', parse cfg (S f) (ba ++ r') = POk (TAtom node) r') ->
    parse cfg (S (S f)) (tag_new_pid_ext :: ba ++ be 4 id ++ be 4 ser ++ be 4 cr ++ rest)
      = POk (TPid {| pnode := node; pnum := id; pserial := ser; pcreation := cr; ploc := None |}) rest.
  Proof.
    intros Hi Hs Hc Ha. rewrite parse_S, arm_new_pid. unfold parse_body, atom_of. rewrite Ha.
    rewrite rd_app by (cbn; lia). rewrite rd_app by (cbn; lia). rewrite rd_app by (cbn; lia). reflexivity.
  Qed.

  Lemma p_port_c f node id cr ba rest :
    id < 18446744073709551616 -> cr < 4294967296 ->
    (forall r', parse cfg (S f) (ba ++ r') = POk (TAtom node) r') ->
    parse cfg (S (S f)) (tag_v4_port_ext :: ba ++ be 8 id ++ be 4 cr ++ rest) = POk (TPort node id cr None) rest.
  Proof.
    intros Hi Hc Ha. rewrite parse_S, arm_v4_port. unfold parse_body, atom_of. rewrite Ha.
    rewrite rd_app by (change (256 ^ N.of_nat 8) with 18446744073709551616; lia). rewrite rd_app by (cbn; lia). reflexivity.
  Qed.

  Lemma p_ref_c f node cr ids ba rest :
    cr < 4294967296 -> forallb (fun i => i <? 4294967296) ids = true -> len ids <= 65535 ->
    (forall r', parse cfg (S f) (ba ++ r') = POk (TAtom node) r') ->
    parse cfg (S (S f)) (tag_newer_reference_ext :: be 2 (len ids) ++ ba ++ be 4 cr ++ concat (map (be 4) ids) ++ rest)
      = POk (TRef node cr ids None) rest.
  Proof.
    intros Hc Hall Hl Ha. rewrite parse_S, arm_newer_reference. unfold parse_body, atom_of.
    rewrite rd_app by (cbn; lia). rewrite Ha.
    rewrite rd_app by (cbn; lia). rewrite rd_ids_ok; [reflexivity|exact Hall|].
    rewrite app_length, concat_be4_len. lia.
  Qed.

  Lemma p_extfun_c f m fn a bm bf rest :
    a < 256 ->
    (forall r', parse cfg (S f) (bm ++ r') = POk (TAtom m) r') ->
    (forall r', parse cfg (S f) (bf ++ r') = POk (TAtom fn) r') ->
    parse cfg (S (S f)) (tag_export_ext :: bm ++ bf ++ enc_int (Z.of_N a) ++ rest) = POk (TExtFun m fn a) rest.
  Proof.
    intros Ha Em Ef. rewrite parse_S, arm_export. unfold parse_body, atom_of. rewrite Em, Ef.
    assert (Hi : enc_int (Z.of_N a) = [tag_small_integer_ext; a]).
    { unfold enc_int. replace ((0 <=? Z.of_N a) && (Z.of_N a <=? 255))%Z with true by (symmetry; apply andb_true_intro; split; apply Z.leb_le; lia).
      now rewrite N2Z.id. }
    rewrite Hi. cbn [app]. rewrite p_small_int by exact Ha.
    replace ((0 <=? Z.of_N a) && (Z.of_N a <=? 255))%Z with true by (symmetry; apply andb_true_intro; split; apply Z.leb_le; lia).
    now rewrite N2Z.id.
  Qed.

  Fixpoint enc_list_c (l : list term) : eres :=
    match l with
    | [] => EOk []
    | x :: r => ebind (enc_c order x) (fun bx => ebind (enc_list_c r) (fun br => EOk (bx ++ br)))
    end.

  Fixpoint enc_pairs_c (m : list (term * term)) : eres :=
    match m with
    | [] => EOk []
    | kv :: r => ebind (enc_c order (fst kv)) (fun bk => ebind (enc_c order (snd kv)) (fun bv => ebind (enc_pairs_c r) (fun br => EOk (bk ++ bv ++ br))))
    end.

  Definition Pc (t : term) : Prop :=
    wf t = true -> rt_ok kc ki t ->
    exists b, enc_c order t = EOk b /\ (0 < length b)%nat /\
      forall f rest, (length b < f)%nat -> parse cfg f (b ++ rest) = POk (norm t) rest.

  Local Notation all_ok := (RoundTrip.all_ok kc ki).

  Lemma seq_ok_c l : Forall Pc l -> forallb wf l = true -> all_ok l ->
    exists bl, enc_list_c l = EOk bl /\ (length l <= length bl)%nat /\
      forall f k rest, (length bl < f)%nat -> (length l < k)%nat ->
        seq_with (parse cfg f) k (len l) (bl ++ rest) = SOk (map norm l) rest.
  Proof.
    induction l as [|x l IH]; intros HP Hwf Hok.
    - exists []. split; [reflexivity|]. split; [cbn; lia|]. intros f k rest _ Hk. destruct k; reflexivity.
    - inversion HP as [|? ? Hx Hl]; subst. cbn [forallb] in Hwf. apply andb_prop in Hwf as [Hwx Hwl].
      destruct Hok as [Hox Hol].
      destruct (Hx Hwx Hox) as (bx & Ex & Lx & Px).
      destruct (IH Hl Hwl Hol) as (bl & El & Ll & Pl).
      exists (bx ++ bl). cbn [enc_list_c]. rewrite Ex, El. cbn [ebind]. split; [reflexivity|].
      split; [rewrite app_length; cbn [length]; lia|].
      intros f k rest Hf Hk. rewrite app_length in Hf. destruct k as [|k]; [cbn [length] in Hk; lia|].
      cbn [seq_with].
      assert (E : len (x :: l) =? 0 = false) by (apply N.eqb_neq; unfold len; cbn [length]; lia).
      rewrite E. rewrite <- app_assoc. rewrite Px by lia.
      replace (N.pred (len (x :: l))) with (len l) by (unfold len; cbn [length]; lia).
      rewrite Pl by (cbn [length] in Hk; lia). reflexivity.
  Qed.

  Lemma enc_pairs_flat_c kvs : enc_pairs_c kvs = enc_list_c (flat kvs).
  Proof.
    induction kvs as [|kv kvs IH]; [reflexivity|]. cbn [enc_pairs_c flat map concat app enc_list_c].
    fold (flat kvs). rewrite IH.
    destruct (enc_c order (fst kv)) as [bk|]; [|reflexivity]. cbn [ebind].
    destruct (enc_c order (snd kv)) as [bv|]; [|reflexivity]. cbn [ebind].
    destruct (enc_list_c (flat kvs)) as [br|]; reflexivity.
  Qed.

  Lemma enc_c_tuple_eq l : enc_c order (TTuple l) =
    if len l <=? 255 then ebind (enc_list_c l) (fun bl => EOk (tag_small_tuple_ext :: len l :: bl))
    else if 4294967296 <=? len l then EErr ETupleTooLarge
    else ebind (enc_list_c l) (fun bl => EOk (tag_large_tuple_ext :: be 4 (len l) ++ bl)).
  Proof. reflexivity. Qed.

  Lemma enc_c_list_eq l : enc_c order (TList l) =
    match l with
    | [] => EOk [tag_nil_ext]
    | _ => if 4294967296 <=? len l then EErr EListTooLarge
           else ebind (enc_list_c l) (fun bl => EOk (tag_list_ext :: be 4 (len l) ++ bl ++ [tag_nil_ext]))
    end.
  Proof. destruct l; reflexivity. Qed.

  Lemma enc_c_improper_eq l tl : enc_c order (TImproper l tl) =
    match l with
    | [] => enc_c order tl
    | _ => if 4294967296 <=? len l then EErr EListTooLarge
           else ebind (enc_list_c l) (fun bl => ebind (enc_c order tl) (fun bt => EOk (tag_list_ext :: be 4 (len l) ++ bl ++ bt)))
    end.
  Proof. destruct l; reflexivity. Qed.

  Lemma enc_c_map_eq kvs : enc_c order (TMap kvs) =
    if 4294967296 <=? len kvs then EErr EMapTooLarge
    else ebind (enc_pairs_c kvs) (fun bm => EOk (tag_map_ext :: be 4 (len kvs) ++ bm)).
  Proof. reflexivity. Qed.

  Lemma enc_c_fun_eq a u i nf m oi ou p fr : enc_c order (TIntFun a u i nf m oi ou p fr) =
    ebind (enc_atom_c order m) (fun bm => ebind (enc_pid_c order p) (fun bp => ebind (enc_list_c fr) (fun bfr =>
      let temp := a :: u ++ be 4 i ++ be 4 nf ++ bm ++ enc_int (Z.of_N oi) ++ enc_int (Z.of_N ou) ++ bp ++ bfr in
      EOk (tag_new_fun_ext :: be 4 (len temp + 4) ++ temp)))).
  Proof. reflexivity. Qed.

  (* identifiers: a LOCAL_EXT wrapper is written verbatim (its inner identifier is in plain form); otherwise the node
     name goes through the atom map *)
  Lemma Pc_pid p : Pc (TPid p).
  Proof.
    intros Hwf Hok. destruct p as [node id ser cr loc]. pose proof Hwf as Hwf0.
    cbn [wf wf_pid pnode pnum pserial pcreation ploc] in Hwf.
    do 4 (apply andb_prop in Hwf as [Hwf ?]).
    repeat match goal with H : (_ <? _) = true |- _ => apply N.ltb_lt in H end.
    destruct Hok as [Ha Hloc]. cbn [pnode pnum pserial pcreation ploc] in *.
    destruct loc as [raw|].
    - destruct Hloc as (h & nb & -> & Hh & Enb).
      assert (W : wf (TPid {| pnode := node; pnum := id; pserial := ser; pcreation := cr; ploc := None |}) = true).
      { cbn [wf]. unfold wf_pid. cbn [pnode pnum pserial pcreation ploc wf_loc]. rewrite Hwf. cbn [andb].
        repeat (apply andb_true_intro; split); try (apply N.ltb_lt; assumption); reflexivity. }
      destruct (plain _ W (conj Ha I)) as (b & Eb & Lb & Pb).
      cbn [enc] in Eb. rewrite Eb in Enb. inversion Enb; subst nb.
      exists (tag_local_ext :: h ++ b). split; [reflexivity|]. split; [cbn [length]; lia|].
      intros f rest Hf. cbn [length] in Hf. rewrite app_length in Hf.
      destruct f as [|f]; [lia|]. cbn [app]. rewrite <- app_assoc.
      rewrite (p_local f h b rest _ Hh (Pb f rest ltac:(lia))). reflexivity.
    - destruct (enc_atom_c_ok node Hwf Ha) as (ba & Ea & La & Pa).
      cbn [enc_c]. unfold enc_pid_c. cbn [ploc pnode pnum pserial pcreation]. rewrite Ea. cbn [ebind].
      eexists. split; [reflexivity|]. split; [cbn [length]; lia|].
      intros f rest Hf. cbn [length] in Hf. rewrite app_length in Hf.
      destruct f as [|f]; [lia|]. destruct f as [|f]; [lia|].
      cbn [app]. rewrite <- !app_assoc. apply p_pid_c; try assumption. intros r'. apply Pa.
  Qed.

  Lemma Pc_port n i c loc : Pc (TPort n i c loc).
  Proof.
    intros Hwf Hok. cbn [wf] in Hwf. pose proof Hwf as Hwf0. do 3 (apply andb_prop in Hwf as [Hwf ?]).
    repeat match goal with H : (_ <? _) = true |- _ => apply N.ltb_lt in H end.
    destruct Hok as [Ha Hloc].
    destruct loc as [raw|].
    - destruct Hloc as (h & nb & -> & Hh & Enb).
      assert (W : wf (TPort n i c None) = true).
      { cbn [wf wf_loc]. rewrite Hwf. cbn [andb]. repeat (apply andb_true_intro; split); try (apply N.ltb_lt; assumption); reflexivity. }
      destruct (plain _ W (conj Ha I)) as (b & Eb & Lb & Pb).
      rewrite Eb in Enb. inversion Enb; subst nb.
      exists (tag_local_ext :: h ++ b). split; [reflexivity|]. split; [cbn [length]; lia|].
      intros f rest Hf. cbn [length] in Hf. rewrite app_length in Hf.
      destruct f as [|f]; [lia|]. cbn [app]. rewrite <- app_assoc.
      rewrite (p_local f h b rest _ Hh (Pb f rest ltac:(lia))). reflexivity.
    - destruct (enc_atom_c_ok n Hwf Ha) as (ba & Ea & La & Pa).
      cbn [enc_c]. rewrite Ea. cbn [ebind]. eexists. split; [reflexivity|]. split; [cbn [length]; lia|].
      intros f rest Hf. cbn [length] in Hf. rewrite app_length in Hf.
      destruct f as [|f]; [lia|]. destruct f as [|f]; [lia|].
      cbn [app]. rewrite <- !app_assoc. apply p_port_c; try assumption. intros r'. apply Pa.
  Qed.

  Lemma Pc_ref n c ids loc : Pc (TRef n c ids loc).
  Proof.
    intros Hwf Hok. cbn [wf] in Hwf. pose proof Hwf as Hwf0. do 3 (apply andb_prop in Hwf as [Hwf ?]).
    repeat match goal with H : (_ <? _) = true |- _ => apply N.ltb_lt in H end.
    destruct Hok as (Ha & Hl & Hloc).
    destruct loc as [raw|].
    - destruct Hloc as (h & nb & -> & Hh & Enb).
      assert (W : wf (TRef n c ids None) = true).
      { cbn [wf wf_loc]. rewrite Hwf. cbn [andb]. repeat (apply andb_true_intro; split); try (apply N.ltb_lt; assumption); try assumption; reflexivity. }
      destruct (plain _ W (conj Ha (conj Hl I))) as (b & Eb & Lb & Pb).
      rewrite Eb in Enb. inversion Enb; subst nb.
      exists (tag_local_ext :: h ++ b). split; [reflexivity|]. split; [cbn [length]; lia|].
      intros f rest Hf. cbn [length] in Hf. rewrite app_length in Hf.
      destruct f as [|f]; [lia|]. cbn [app]. rewrite <- app_assoc.
      rewrite (p_local f h b rest _ Hh (Pb f rest ltac:(lia))). reflexivity.
    - destruct (enc_atom_c_ok n Hwf Ha) as (ba & Ea & La & Pa).
      cbn [enc_c]. replace (65536 <=? len ids) with false by (symmetry; apply N.leb_gt; lia).
      rewrite Ea. cbn [ebind]. eexists. split; [reflexivity|]. split; [cbn [length]; lia|].
      intros f rest Hf. cbn [length] in Hf. rewrite !app_length in Hf. rewrite be_length in Hf.
      destruct f as [|f]; [lia|]. destruct f as [|f]; [lia|].
      cbn [app]. rewrite <- !app_assoc. apply p_ref_c; try assumption. intros r'. apply Pa.
  Qed.

  Lemma Pc_tuple l : Forall Pc l -> Pc (TTuple l).
  Proof.
    intros HP Hwf Hok. cbn [wf] in Hwf. destruct Hok as [Hlen Hall].
    destruct (seq_ok_c l HP Hwf Hall) as (bl & El & Ll & Pl).
    rewrite enc_c_tuple_eq. cbn [norm]. rewrite El. cbn [ebind].
    destruct (len l <=? 255) eqn:E.
    - apply N.leb_le in E. eexists. split; [reflexivity|]. split; [cbn [length]; lia|].
      intros f rest Hf. cbn [length] in Hf. destruct f as [|f]; [lia|]. cbn [app].
      rewrite parse_S, arm_small_tuple. unfold parse_body. rewrite rd1.
      replace (max_tuple_size <? len l) with false by (symmetry; apply N.ltb_ge; unfold max_tuple_size; lia).
      rewrite Pl; [reflexivity|lia|rewrite app_length; lia].
    - apply N.leb_gt in E.
      replace (4294967296 <=? len l) with false by (symmetry; apply N.leb_gt; unfold max_tuple_size in Hlen; lia).
      eexists. split; [reflexivity|]. split; [cbn [length]; lia|].
      intros f rest Hf. cbn [length] in Hf. rewrite app_length, be_length in Hf. destruct f as [|f]; [lia|].
      cbn [app]. rewrite <- app_assoc.
      rewrite parse_S, arm_large_tuple. unfold parse_body.
      rewrite rd_app by (unfold max_tuple_size in Hlen; cbn; lia).
      replace (max_tuple_size <? len l) with false by (symmetry; apply N.ltb_ge; exact Hlen).
      rewrite Pl; [reflexivity|lia|rewrite app_length; lia].
  Qed.

  Lemma Pc_list l : Forall Pc l -> Pc (TList l).
  Proof.
    intros HP Hwf Hok. cbn [wf] in Hwf. destruct Hok as [Hlen Hall].
    destruct l as [|x l'].
    - exists [tag_nil_ext]. split; [reflexivity|]. split; [cbn; lia|].
      intros f rest Hf. destruct f as [|f]; [cbn in Hf; lia|]. cbn [app norm]. apply p_nil.
    - set (l := x :: l') in *.
      destruct (seq_ok_c l HP Hwf Hall) as (bl & El & Ll & Pl).
      rewrite enc_c_list_eq. unfold l at 1. fold l.
      replace (4294967296 <=? len l) with false by (symmetry; apply N.leb_gt; unfold max_list_size in Hlen; lia).
      rewrite El. cbn [ebind].
      eexists. split; [reflexivity|]. split; [cbn [length]; lia|].
      intros f rest Hf. cbn [length] in Hf. rewrite !app_length, be_length in Hf. cbn [length] in Hf. destruct f as [|f]; [lia|].
      cbn [app]. rewrite <- !app_assoc.
      rewrite parse_S, arm_list. unfold parse_body.
      rewrite rd_app by (unfold max_list_size in Hlen; cbn; lia).
      replace (max_list_size <? len l) with false by (symmetry; apply N.ltb_ge; exact Hlen).
      rewrite Pl; [|lia|rewrite !app_length; cbn [length]; lia].
      cbn [app]. destruct f as [|f]; [lia|]. rewrite p_nil. reflexivity.
  Qed.

  Lemma Pc_improper l tl : Forall Pc l -> Pc tl -> Pc (TImproper l tl).
  Proof.
    intros HP HPt Hwf Hok. cbn [wf] in Hwf. apply andb_prop in Hwf as [Hwl Hwt]. destruct Hok as (Hlen & Hot & Hall).
    destruct (HPt Hwt Hot) as (bt & Et & Lt & Pt).
    destruct l as [|x l'].
    - exists bt. rewrite enc_c_improper_eq. split; [exact Et|]. split; [exact Lt|]. exact Pt.
    - set (l := x :: l') in *.
      destruct (seq_ok_c l HP Hwl Hall) as (bl & El & Ll & Pl).
      rewrite enc_c_improper_eq. unfold l at 1. fold l.
      replace (4294967296 <=? len l) with false by (symmetry; apply N.leb_gt; unfold max_list_size in Hlen; lia).
      rewrite El, Et. cbn [ebind].
      eexists. split; [reflexivity|]. split; [cbn [length]; lia|].
      intros f rest Hf. cbn [length] in Hf. rewrite !app_length, be_length in Hf. destruct f as [|f]; [lia|].
      cbn [app]. rewrite <- !app_assoc.
      rewrite parse_S, arm_list. unfold parse_body.
      rewrite rd_app by (unfold max_list_size in Hlen; cbn; lia).
      replace (max_list_size <? len l) with false by (symmetry; apply N.ltb_ge; exact Hlen).
      rewrite Pl; [|lia|rewrite !app_length; lia].
      rewrite Pt by lia. cbn [norm]. unfold l at 2. fold l.
      destruct (norm tl); reflexivity.
  Qed.

  Lemma Pc_map kvs : Forall (fun kv => Pc (fst kv) /\ Pc (snd kv)) kvs -> Pc (TMap kvs).
  Proof.
    intros HP Hwf Hok. cbn [wf] in Hwf. destruct Hok as (Hlen & Hstable & Hall).
    assert (HPf : Forall Pc (flat kvs)).
    { clear -HP. induction HP as [|kv kvs [Hk Hv] _ IH]; [constructor|]. cbn [flat map concat app]. repeat constructor; assumption. }
    assert (Hwff : forallb wf (flat kvs) = true).
    { clear -Hwf. induction kvs as [|kv kvs IH]; [reflexivity|]. cbn [forallb] in Hwf. apply andb_prop in Hwf as [Hkv Hr].
      apply andb_prop in Hkv as [Hk Hv]. cbn [flat map concat app forallb]. rewrite Hk, Hv. cbn [andb]. now apply IH. }
    assert (Hallf : all_ok (flat kvs)).
    { clear -Hall. induction kvs as [|kv kvs IH]; [exact I|]. destruct Hall as (Hk & Hv & Hr). cbn [flat map concat app RoundTrip.all_ok]. auto. }
    destruct (seq_ok_c (flat kvs) HPf Hwff Hallf) as (bl & El & Ll & Pl).
    rewrite enc_c_map_eq, enc_pairs_flat_c.
    replace (4294967296 <=? len kvs) with false by (symmetry; apply N.leb_gt; unfold max_map_size in Hlen; lia).
    rewrite El. cbn [ebind].
    eexists. split; [reflexivity|]. split; [cbn [length]; lia|].
    intros f rest Hf. cbn [length] in Hf. rewrite !app_length, be_length in Hf. destruct f as [|f]; [lia|].
    cbn [app]. rewrite <- !app_assoc.
    rewrite parse_S, arm_map. unfold parse_body.
    rewrite rd_app by (unfold max_map_size in Hlen; cbn; lia).
    replace (max_map_size <? len kvs) with false by (symmetry; apply N.ltb_ge; exact Hlen).
    rewrite <- len_flat. rewrite Pl; [|lia|rewrite !app_length; lia].
    rewrite map_norm_flat, pair_up_flat, Hkc, Hki, Hstable. reflexivity.
  Qed.

  Lemma Pc_fun a u i nf m oi ou p fr : Forall Pc fr -> Pc (TIntFun a u i nf m oi ou p fr).
  Proof.
    intros HP Hwf Hok. cbn [wf] in Hwf.
    do 9 (apply andb_prop in Hwf as [Hwf ?]).
    repeat match goal with H : (_ <? _) = true |- _ => apply N.ltb_lt in H end.
    match goal with H : (len u =? 16) = true |- _ => apply N.eqb_eq in H; rename H into Hu end.
    unfold two8, two32 in *.
    destruct Hok as (Ham & Hoi & Hou & Hpid & Hnf & Hall).
    destruct (enc_atom_c_ok m ltac:(assumption) Ham) as (bm & Em & Lm & Pm).
    destruct (Pc_pid p ltac:(assumption) Hpid) as (bp & Ep & Lp & Pp).
    destruct (seq_ok_c fr HP ltac:(assumption) Hall) as (bf & Ef & Lf & Pf).
    rewrite enc_c_fun_eq. cbn [enc_c] in Ep. rewrite Em, Ep, Ef. cbn [ebind]. cbv zeta.
    eexists. split; [reflexivity|]. split; [cbn [length]; lia|].
    intros f rest Hf. cbn [length] in Hf. rewrite !app_length, !be_length in Hf. cbn [length] in Hf.
    rewrite !app_length, !be_length in Hf.
    destruct f as [|f]; [lia|]. destruct f as [|f]; [lia|].
    cbn [app]. rewrite <- !app_assoc. cbn [app]. rewrite <- !app_assoc.
    rewrite parse_S, arm_new_fun. unfold parse_body, atom_of.
    rewrite rd_be_be. cbv beta iota. rewrite rd1.
    assert (Hu16 : takeN 16 (u ++ be 4 i ++ be 4 nf ++ bm ++ enc_int (Z.of_N oi) ++ enc_int (Z.of_N ou) ++ bp ++ bf ++ rest)
                   = Some (u, be 4 i ++ be 4 nf ++ bm ++ enc_int (Z.of_N oi) ++ enc_int (Z.of_N ou) ++ bp ++ bf ++ rest)).
    { rewrite <- Hu. apply takeN_app. }
    rewrite Hu16. rewrite rd_app by (cbn; lia). rewrite rd_app by (cbn; lia).
    rewrite Pm.
    pose proof (enc_int_len (Z.of_N oi)) as Loi. pose proof (enc_int_len (Z.of_N ou)) as Lou.
    rewrite (p_int (Z.of_N oi) (S f)) by lia.
    unfold norm_int. replace (in_i32 (Z.of_N oi)) with true by (symmetry; unfold in_i32; apply andb_true_intro; split; apply Z.leb_le; lia).
    replace (Z.of_N oi <? 0)%Z with false by (symmetry; apply Z.ltb_ge; lia).
    rewrite (p_int (Z.of_N ou) (S f)) by lia.
    unfold norm_int. replace (in_i32 (Z.of_N ou)) with true by (symmetry; unfold in_i32; apply andb_true_intro; split; apply Z.leb_le; lia).
    replace (Z.of_N ou <? 0)%Z with false by (symmetry; apply Z.ltb_ge; lia).
    rewrite Pp by lia. cbn [norm]. rewrite Hnf. rewrite Pf; [|lia|rewrite app_length; lia].
    rewrite !N2Z.id. rewrite !N.mod_small by lia. reflexivity.
  Qed.

  Theorem roundtrip_c : forall t, Pc t.
  Proof.
    induction t using term_ind'.
    - (* atom *) intros Hwf Hok. cbn [wf] in Hwf. destruct (enc_atom_c_ok a Hwf Hok) as (b & Eb & Lb & Pb).
      exists b. split; [exact Eb|]. split; [lia|]. intros f rest Hf. destruct f as [|f]; [lia|]. apply Pb.
    - (* int *) intros Hwf _. cbn [wf] in Hwf. apply andb_prop in Hwf as [H1 H2]. apply Z.leb_le in H1. apply Z.ltb_lt in H2.
      exists (enc_int z). split; [reflexivity|]. split; [apply enc_int_len|].
      intros f rest Hf. apply p_int; [unfold two63 in *; lia|exact Hf].
    - (* float *) intros Hwf _. cbn [wf] in Hwf. unfold float_finite in Hwf. apply andb_prop in Hwf as [H1 _]. apply N.ltb_lt in H1.
      eexists. split; [reflexivity|]. split; [cbn [enc_float length]; lia|].
      intros f rest Hf. destruct f as [|f]; [cbn in Hf; lia|]. unfold enc_float. cbn [app]. apply p_float. exact H1.
    - apply Pc_pid.
    - apply Pc_port.
    - apply Pc_ref.
    - (* binary *) intros _ Hok. cbn [rt_ok] in Hok. cbn [enc_c]. unfold enc_bin.
      replace (4294967296 <=? len b) with false by (symmetry; apply N.leb_gt; unfold max_binary_size in Hok; lia).
      eexists. split; [reflexivity|]. split; [cbn [length]; lia|].
      intros f rest Hf. destruct f as [|f]; [cbn in Hf; lia|]. cbn [app]. rewrite <- app_assoc. now apply p_bin.
    - (* bit-string *) intros Hwf Hok. cbn [wf] in Hwf. do 3 (apply andb_prop in Hwf as [Hwf ?]).
      cbn [rt_ok] in Hok. cbn [enc_c]. unfold enc_bitbin.
      replace (4294967296 <=? len b) with false by (symmetry; apply N.leb_gt; unfold max_binary_size in Hok; lia).
      eexists. split; [reflexivity|]. split; [cbn [length]; lia|].
      intros f rest Hf. destruct f as [|f]; [cbn in Hf; lia|]. cbn [app]. rewrite <- app_assoc. cbn [app].
      apply p_bitbin; try assumption; try (apply N.leb_le; assumption).
      intros ->. match goal with H : (k =? 8) = true |- _ => now apply N.eqb_eq in H end.
    - (* string *) intros _ Hok. cbn [rt_ok] in Hok. cbn [enc_c norm]. unfold enc_bin.
      replace (4294967296 <=? len s) with false by (symmetry; apply N.leb_gt; unfold max_binary_size in Hok; lia).
      eexists. split; [reflexivity|]. split; [cbn [length]; lia|].
      intros f rest Hf. destruct f as [|f]; [cbn in Hf; lia|]. cbn [app]. rewrite <- app_assoc. now apply p_bin.
    - now apply Pc_list.
    - now apply Pc_improper.
    - now apply Pc_map.
    - now apply Pc_tuple.
    - (* big integer *) intros _ Hok. cbn [rt_ok] in Hok. exists (enc_big s d). split; [reflexivity|].
      split; [unfold enc_big; rewrite app_length; cbn [length]; lia|].
      intros f rest Hf. destruct f as [|f]; [lia|]. now apply p_big.
    - (* external fun *) intros Hwf Hok. cbn [wf] in Hwf. do 2 (apply andb_prop in Hwf as [Hwf ?]).
      destruct Hok as [Hm Hf0].
      destruct (enc_atom_c_ok m ltac:(assumption) Hm) as (bm & Em & Lm & Pm).
      destruct (enc_atom_c_ok f ltac:(assumption) Hf0) as (bf & Ef & Lf & Pf).
      cbn [enc_c]. rewrite Em, Ef. cbn [ebind].
      eexists. split; [reflexivity|]. split; [cbn [length]; lia|].
      intros f1 rest Hf. cbn [length] in Hf. rewrite !app_length in Hf. destruct f1 as [|f1]; [lia|]. destruct f1 as [|f1]; [lia|].
      cbn [app]. rewrite <- !app_assoc. apply p_extfun_c; try (intros r'; auto).
      match goal with H : (a <? two8) = true |- _ => apply N.ltb_lt in H; exact H end.
    - now apply Pc_fun.
    - (* nil *) intros _ _. exists [tag_nil_ext]. split; [reflexivity|]. split; [cbn; lia|].
      intros f rest Hf. destruct f as [|f]; [cbn in Hf; lia|]. apply p_nil.
  Qed.
End RTC.
