//! domain `frag`: FragmentAssembler event sequences.
//! case: `<timeout:big|zero> ev;ev;...` with ev = `S seq fid cachehex|- datahex` | `A seq fid datahex` | `C`
//! output: per event `n/<pending>` | `s<hex>/<pending>` | `c<removed>/<pending>`
use crate::util::{hex, unhex};
use edp_client::fragmentation::FragmentAssembler;
use std::time::Duration;

pub fn run_case(line: &str) -> String {
    let (mode, rest) = line.split_once(' ').unwrap_or((line, ""));
    let mut asm = match mode {
        "zero" | "xzero" => FragmentAssembler::with_timeout(Duration::ZERO),
        "big" | "xbig" => FragmentAssembler::with_timeout(Duration::from_secs(1_000_000)),
        _ => FragmentAssembler::new(),
    };
    let mut out = Vec::new();
    for ev in rest.split(';') {
        let t: Vec<&str> = ev.split_whitespace().collect();
        if t.is_empty() {
            continue;
        }
        match t[0] {
            "S" => {
                let seq: u64 = t[1].parse().unwrap();
                let fid: u64 = t[2].parse().unwrap();
                let cache = if t[3] == "-" { None } else { Some(unhex(t[3])) };
                let data = unhex(t[4]);
                let r = asm.start_fragment(seq, fid, cache, data);
                out.push(fmt(r, asm.pending_count()));
            }
            "A" => {
                let seq: u64 = t[1].parse().unwrap();
                let fid: u64 = t[2].parse().unwrap();
                let data = unhex(t[3]);
                let r = asm.add_fragment(seq, fid, data);
                out.push(fmt(r, asm.pending_count()));
            }
            "C" => {
                std::thread::sleep(Duration::from_millis(2));
                let k = asm.cleanup_expired();
                out.push(format!("c{}/{}", k, asm.pending_count()));
            }
            _ => panic!("bad event"),
        }
    }
    out.join(" ")
}

fn fmt(r: Option<Vec<u8>>, pending: usize) -> String {
    match r {
        None => format!("n/{pending}"),
        Some(b) => format!("s{}/{}", hex(&b), pending),
    }
}
