"""C09 — fragment reassembly. Domain `frag`."""
import itertools
import vlib, random

ID = "C09"
GEN_FILES = ["FragConsts.v"]
RULE = ("each case is one event history for a FragmentAssembler (start/add/cleanup over 1-4 interleaved sequences, "
        "cuts, arrival permutations, duplicates, out-of-range ids); distinct = distinct case text; non-trivial = "
        "the history contains at least one completion of a message of >= 2 fragments, or a duplicate/junk/cleanup event")
ASSUMPTIONS = ["HashMap modelled as association list with distinct keys", "Instant modelled as a caller-supplied clock; "
               "expiry exercised only with timeout 0 (everything expired after 2 ms) and a huge timeout (nothing expires)"]
MAXCOUNT = 1_000_000


def hx(b):
    return b.hex() if b else "."


def reference(case):
    """Spec-level assembler written from the property statement (independent of the code).
    Returns list of expected (ret, pending) per event where ret is None | bytes | ('c', removed)."""
    mode, rest = case.split(" ", 1)
    st = {}
    exp = []
    for ev in rest.split(";"):
        t = ev.split()
        if not t:
            continue
        if t[0] == "C":
            if mode.endswith("zero"):
                k = len(st); st = {}
            else:
                k = 0
            exp.append((("c", k), len(st)))
            continue
        seq, fid = int(t[1]), int(t[2])
        ret = None
        if t[0] == "S":
            cache = None if t[3] == "-" else bytes.fromhex(t[3].replace(".", ""))
            data = bytes.fromhex(t[4].replace(".", ""))
            if 1 <= fid <= MAXCOUNT:
                s = st.setdefault(seq, {"n": None, "got": {}, "cache": None})
                s["n"] = fid; s["cache"] = cache
                s["got"] = {k: v for k, v in s["got"].items() if k <= fid}
                s["got"].setdefault(fid, data)
        else:
            data = bytes.fromhex(t[3].replace(".", ""))
            s = st.setdefault(seq, {"n": None, "got": {}, "cache": None})
            if fid != 0 and (s["n"] is None or fid <= s["n"]):
                s["got"].setdefault(fid, data)
        s = st.get(seq)
        if s and s["n"] is not None and all(k in s["got"] for k in range(1, s["n"] + 1)):
            ret = (s["cache"] or b"") + b"".join(s["got"][k] for k in range(s["n"], 0, -1))
            asc = (s["cache"] or b"") + b"".join(s["got"][k] for k in range(1, s["n"] + 1))
            ret = (ret, asc)
            del st[seq]
        exp.append((ret, len(st)))
    return exp


def oracle(case, impl):
    if case.startswith("x"):
        return None  # adversarial stream: model-vs-impl comparison only
    exp = reference(case)
    got = impl.split()
    if impl.startswith("PANIC") or impl.startswith("CRASH") or impl.startswith("TIMEOUT"):
        return ("violation", "assembler did not return: " + impl[:80])
    if len(got) != len(exp):
        return ("violation", "event count mismatch")
    known = None
    for i, ((ret, pend), g) in enumerate(zip(exp, got)):
        r, p = g.rsplit("/", 1)
        if isinstance(ret, tuple) and ret and ret[0] == "c":
            if r != "c%d" % ret[1] or int(p) != pend:
                return ("violation", "event %d: cleanup removed/pending %s, expected c%d/%d" % (i, g, ret[1], pend))
            continue
        if ret is None:
            if r != "n":
                return ("violation", "event %d returned a message (%s) although the sequence is incomplete" % (i, r[:60]))
        else:
            orig, asc = ret
            if r == "n":
                if ";" in case and case.count(";") >= 100000:
                    known = "C09-veclimit"
                    # the sequence stays pending in the implementation; later pending counts differ
                    return ("known", known)
                return ("violation", "event %d completes the sequence but nothing was returned" % i)
            if r != "s" + hx(orig):
                if r == "s" + hx(asc):
                    known = "C09-order"
                else:
                    return ("violation", "event %d returned %s, expected the original %s" % (i, r[:80], hx(orig)[:80]))
        if int(p) != pend:
            return ("violation", "event %d: pending_count %s, expected %d (state kept for complete/absent sequences?)" % (i, p, pend))
    return ("known", known) if known else None


def oracle_for(_dom):
    return oracle


def gen_history(rng, adversarial=False, maxfrag=5):
    nseq = rng.choice([1, 1, 2, 2, 3, 4])
    seqids = rng.sample([0, 1, 2, 7, 42, 2**32, 2**64 - 1, rng.randrange(2**64)], nseq)
    if nseq >= 2 and rng.random() < 0.3:     # two sequences whose ids agree in their low bits
        alias = (seqids[0] + 2**rng.choice([8, 16, 31, 32, 48, 63])) % 2**64
        if alias not in seqids:               # (two streams under one id would be one sequence with two headers)
            seqids[1] = alias
    streams = []
    for sid in seqids:
        n = rng.choice([1, 2, 2, 3, 3, 4, maxfrag])
        msg = bytes(rng.randrange(256) for _ in range(rng.choice([0, 1, n, n + 3, 2 * n + 5, 40])))
        cuts = sorted(rng.randrange(len(msg) + 1) for _ in range(n - 1))
        parts = [msg[a:b] for a, b in zip([0] + cuts, cuts + [len(msg)])]
        cache = rng.choice([None, None, b"", b"\x01\x02", bytes(rng.randrange(256) for _ in range(5))])
        evs = [("S", sid, n, cache, parts[0])] + [("A", sid, n - k, parts[k]) for k in range(1, n)]
        rng.shuffle(evs)
        # duplicates before the end, junk ids
        extra = []
        for _ in range(rng.choice([0, 0, 1, 2])):
            e = rng.choice(evs)
            extra.append(e)
        for _ in range(rng.choice([0, 0, 1])):
            extra.append(("A", sid, rng.choice([0, n + 1, n + 7, 2**64 - 1]), b"\xee\xee"))
        for _ in range(rng.choice([0, 0, 1])):   # an out-of-range id that agrees with a valid one in its low bits
            extra.append(("A", sid, rng.randrange(1, n + 1) + 2**rng.choice([8, 16, 31, 32, 33, 48, 63]), b"\xee\xee\xee"))
        if adversarial:
            for _ in range(rng.choice([1, 2])):
                k = rng.choice(["hdr2", "baddata", "zero", "huge"])
                if k == "hdr2":
                    extra.append(("S", sid, rng.choice([1, n + 1, max(1, n - 1), 100001, 2 * 10**6, 0]), None, b"\x99"))
                elif k == "baddata":
                    extra.append(("A", sid, rng.randrange(1, n + 1), b"\x77\x77"))
                elif k == "zero":
                    extra.append(("S", sid, 0, None, b""))
                else:
                    extra.append(("A", sid, 2**63, b"\x01"))
        for e in extra:
            evs.insert(rng.randrange(len(evs) + 1), e)
        streams.append(evs)
    # interleave
    merged = []
    idx = [0] * len(streams)
    while any(i < len(s) for i, s in zip(idx, streams)):
        k = rng.choice([j for j in range(len(streams)) if idx[j] < len(streams[j])])
        merged.append(streams[k][idx[k]]); idx[k] += 1
        if rng.random() < 0.05:
            merged.append(("C",))
    mode = rng.choice(["big", "big", "big", "zero"])
    return ("x" if adversarial else "") + mode + " " + ";".join(fmt_ev(e) for e in merged)


def fmt_ev(e):
    if e[0] == "S":
        return "S %d %d %s %s" % (e[1], e[2], "-" if e[3] is None else hx(e[3]), hx(e[4]))
    if e[0] == "A":
        return "A %d %d %s" % (e[1], e[2], hx(e[3]))
    return "C"


def exhaustive_perms(n, with_dup):
    """every arrival permutation of an n-fragment message (plus every position of one duplicate)."""
    msg = bytes(range(65, 65 + n))
    parts = [msg[i:i + 1] for i in range(n)]
    base = [("S", 5, n, b"\xca", parts[0])] + [("A", 5, n - k, parts[k]) for k in range(1, n)]
    for perm in itertools.permutations(base):
        yield "big " + ";".join(fmt_ev(e) for e in perm)
        if with_dup:
            for d in range(n):
                for pos in range(n):
                    evs = list(perm); evs.insert(pos, perm[d])
                    yield "big " + ";".join(fmt_ev(e) for e in evs)


def corpus():
    cs = [
        "big S 1 2 - 41;A 1 1 42",                      # the recorded order finding: "AB" split [A|B]
        "big S 1 1 - 010203",
        "big A 1 1 42;S 1 2 - 41",
        "big A 9 3 aa;A 9 3 bb;S 9 3 - cc;A 9 2 dd;A 9 1 ee",
        "zero S 1 2 - 41;C;A 1 1 42;C",
        "big S 1 3 01 41;A 2 1 ff;S 2 2 - ee;A 1 2 42;A 1 2 42;A 1 0 99;A 1 9 98;A 1 1 43",
        "big S 1 0 - 41;S 1 1000001 - 41;S 1 18446744073709551615 - 41",
        "xbig S 1 2 - 41;S 1 3 - 41;A 1 1 42;A 1 2 43",
        "xbig S 1 3 - 41;A 1 1 42;S 1 2 - 43;A 1 2 44",
        "xbig S 1 100001 - 41;A 1 1 42;S 1 2 - 43;A 1 2 44;A 1 1 45",
    ]
    return cs


def veclimit_case():
    n = 100001
    evs = ["S 3 %d - 00" % n] + ["A 3 %d 01" % k for k in range(n - 1, 0, -1)]
    return "big " + ";".join(evs)


def at_limit_cases():
    """exactly at the slot-table limit (100000 fragments) and one below, with the header last and with the header in the
    middle: continuations that arrive before their header are kept and placed when it comes"""
    out = []
    for n in (100000, 99999):
        conts = ["A 4 %d 01" % k for k in range(n - 1, 0, -1)]
        out.append("big " + ";".join(conts + ["S 4 %d - 00" % n]))
        out.append("big " + ";".join(conts[:7] + ["S 4 %d - 00" % n] + conts[7:]))
    return out


def run(ctx):
    rng = ctx.rng
    cases = corpus()
    cases.append(veclimit_case())
    # at the slot-table limit the list-based model needs minutes per case: these four go to the implementation and the
    # spec oracle only
    big = at_limit_cases()
    outs = vlib.run_lines(vlib.HARNESS_BIN, "frag", big, shards=len(big))
    for c, o in zip(big, outs):
        ctx.evaluations += 1
        r = oracle(c, o)
        if r is not None and r[0] == "known" and r[1] == "C09-order":
            ctx.known_hits["C09-order"] += 1
        elif r is not None:
            ctx.violations.append(("frag", c[:400] + " ...", o[:200], r[1] if r[0] == "violation" else "unexpected verdict %s" % (r,)))
    nmax = 4 if ctx.tier == "quick" else 6
    for n in range(1, nmax + 1):
        cases.extend(exhaustive_perms(n, with_dup=(n <= (3 if ctx.tier == "quick" else 4))))
    for _ in range(ctx.budget(3000, 60000)):
        cases.append(gen_history(rng, adversarial=False, maxfrag=rng.choice([5, 6, 9])))
    for _ in range(ctx.budget(1500, 30000)):
        cases.append(gen_history(rng, adversarial=True))

    def nontrivial(c, impl):
        if len(c) > 100000:
            return "veclimit"
        if "s" in impl and c.count(";") >= 1:
            return c
        return None

    def classify(c, impl):
        ks = ["mode:" + c.split(" ", 1)[0], "events:%d" % min(20, c.count(";") + 1)]
        ks.append("completions:%d" % min(5, sum(1 for t in impl.split() if t.startswith("s"))))
        return ks
    ctx.diff_domain("frag", cases, oracle=oracle, nontrivial=nontrivial, classify=classify)
