(* Model of crates/edp_client/src/fragmentation.rs (FragmentedMessage, FragmentAssembler).
   Definitions only; follows the Rust line by line.  HashMaps are association lists
   (keys distinct by construction); `Instant` is a clock value supplied by the caller. *)
From EDP Require Import Base.Bytes Gen.FragConsts.

Record fmsg := {
  total : option N;                 (* total_fragments: Option<FragmentCount> *)
  frags : list (option bytes);      (* fragments: Vec<Option<Vec<u8>>> *)
  pend : list (N * bytes);          (* pending_fragments: HashMap<u64, Vec<u8>> *)
  received : N;                     (* received_count *)
  cache : option bytes;             (* atom_cache_data *)
  last : N                          (* last_update *)
}.

Definition exceeds_vec_limit (c : N) : bool := max_fragments_vec <? c.

(* FragmentCount::new *)
Definition count_new (c : N) : option N :=
  if c =? 0 then None else if max_fragment_count <? c then None else Some c.

(* indexing by N, structurally on the list (no conversion of wire-supplied numbers to unary) *)
Fixpoint set_nth {A} (i : N) (x : A) (l : list A) : list A :=
  match l with
  | [] => []
  | y :: r => if i =? 0 then x :: r else y :: set_nth (N.pred i) x r
  end.

Fixpoint nth_err {A} (l : list A) (i : N) : option A :=
  match l with
  | [] => None
  | y :: r => if i =? 0 then Some y else nth_err r (N.pred i)
  end.

Fixpoint lookup {A} (k : N) (l : list (N * A)) : option A :=
  match l with
  | [] => None
  | (k', v) :: r => if k' =? k then Some v else lookup k r
  end.

Fixpoint remove_key {A} (k : N) (l : list (N * A)) : list (N * A) :=
  match l with
  | [] => []
  | (k', v) :: r => if k' =? k then remove_key k r else (k', v) :: remove_key k r
  end.

(* insert-or-replace, as HashMap::insert *)
Definition put {A} (k : N) (v : A) (l : list (N * A)) : list (N * A) := (k, v) :: remove_key k l.

(* FragmentedMessage::new *)
Definition msg_new (tot : option N) (c : option bytes) (now : N) : fmsg :=
  {| total := tot;
     frags := match tot with
              | Some n => if exceeds_vec_limit n then [] else repeat None (N.to_nat n)
              | None => []
              end;
     pend := []; received := 0; cache := c; last := now |}.

(* the slot write shared by add_fragment and set_total_fragments *)
Definition fill_slot (m : fmsg) (c fid : N) (data : bytes) : fmsg :=
  if (0 <? fid) && (fid <=? c) then
    let idx := fid - 1 in
    match nth_err (frags m) idx with
    | Some None =>
        {| total := total m; frags := set_nth idx (Some data) (frags m); pend := pend m;
           received := received m + 1; cache := cache m; last := last m |}
    | _ => m
    end
  else m.

Definition touch (m : fmsg) (now : N) : fmsg :=
  {| total := total m; frags := frags m; pend := pend m; received := received m;
     cache := cache m; last := now |}.

(* FragmentedMessage::add_fragment *)
Definition msg_add (m : fmsg) (fid : N) (data : bytes) (now : N) : fmsg :=
  let m := touch m now in
  if fid =? 0 then m else
  match total m with
  | Some c => fill_slot m c fid data
  | None =>
      match lookup fid (pend m) with
      | Some _ => m
      | None => {| total := None; frags := frags m; pend := (fid, data) :: pend m;
                   received := received m; cache := cache m; last := last m |}
      end
  end.

Definition resize {A} (n : nat) (d : A) (l : list A) : list A :=
  firstn n l ++ repeat d (n - length l).

(* FragmentedMessage::set_total_fragments *)
Definition msg_set_total (m : fmsg) (c : N) : fmsg :=
  match total m with
  | Some c' => if c' =? c then m else
      if exceeds_vec_limit c then
        {| total := Some c; frags := frags m; pend := pend m; received := received m;
           cache := cache m; last := last m |}
      else
        let m1 := {| total := Some c; frags := resize (N.to_nat c) None (frags m); pend := [];
                     received := received m; cache := cache m; last := last m |} in
        fold_left (fun acc kv => fill_slot acc c (fst kv) (snd kv)) (pend m) m1
  | None =>
      if exceeds_vec_limit c then
        {| total := Some c; frags := frags m; pend := pend m; received := received m;
           cache := cache m; last := last m |}
      else
        let m1 := {| total := Some c; frags := resize (N.to_nat c) None (frags m); pend := [];
                     received := received m; cache := cache m; last := last m |} in
        fold_left (fun acc kv => fill_slot acc c (fst kv) (snd kv)) (pend m) m1
  end.

Definition msg_complete (m : fmsg) : bool :=
  match total m with Some c => received m =? c | None => false end.

Definition flatten_frags (l : list (option bytes)) : bytes :=
  concat (map (fun o => match o with Some d => d | None => [] end) l).

(* FragmentedMessage::reassemble *)
Definition msg_reassemble (m : fmsg) : option bytes :=
  if msg_complete m then
    Some ((match cache m with Some c => c | None => [] end) ++ flatten_frags (frags m))
  else None.

Definition set_cache (m : fmsg) (c : option bytes) : fmsg :=
  {| total := total m; frags := frags m; pend := pend m; received := received m;
     cache := c; last := last m |}.

(* ---- FragmentAssembler ---- *)
Definition asm := list (N * fmsg).

(* start_fragment *)
Definition asm_start (a : asm) (seq fid : N) (c : option bytes) (data : bytes) (now : N)
  : asm * option bytes :=
  match count_new fid with
  | None => (a, None)
  | Some cnt =>
      match lookup seq a with
      | Some m =>
          let m := msg_set_total m cnt in
          let m := set_cache m c in
          let m := msg_add m fid data now in
          if msg_complete m then (remove_key seq a, msg_reassemble m)
          else (put seq m a, None)
      | None =>
          let m := msg_add (msg_new (Some cnt) c now) fid data now in
          if msg_complete m then (a, msg_reassemble m) else (put seq m a, None)
      end
  end.

(* add_fragment *)
Definition asm_add (a : asm) (seq fid : N) (data : bytes) (now : N) : asm * option bytes :=
  match lookup seq a with
  | Some m =>
      let m := msg_add m fid data now in
      if msg_complete m then (remove_key seq a, msg_reassemble m) else (put seq m a, None)
  | None => (put seq (msg_add (msg_new None None now) fid data now) a, None)
  end.

(* cleanup_expired: elapsed > timeout *)
Definition asm_cleanup (a : asm) (timeout now : N) : asm * N :=
  let keep := filter (fun kv => negb (timeout <? now - last (snd kv))) a in
  (keep, len a - len keep).

Definition asm_pending_count (a : asm) : N := len a.

(* ---- events and runs (used by the correspondence and by the theorems) ---- *)
Inductive fev :=
| EStart (seq fid : N) (c : option bytes) (data : bytes)
| EAdd (seq fid : N) (data : bytes)
| ECleanup (timeout : N)
| ETick (dt : N).          (* the clock advances *)

Definition ev_step (st : asm * N) (e : fev) : (asm * N) * option (option bytes) :=
  let '(a, now) := st in
  match e with
  | EStart s f c d => let '(a', r) := asm_start a s f c d now in ((a', now), Some r)
  | EAdd s f d => let '(a', r) := asm_add a s f d now in ((a', now), Some r)
  | ECleanup t => ((fst (asm_cleanup a t now), now), None)
  | ETick dt => ((a, now + dt), None)
  end.

(* run returns, per event: the returned value (if the call returns one) and pending_count after *)
Fixpoint run (st : asm * N) (evs : list fev) : list (option (option bytes) * N) :=
  match evs with
  | [] => []
  | e :: r => let '(st', o) := ev_step st e in (o, asm_pending_count (fst st')) :: run st' r
  end.
