(* PidAllocator::allocate under any schedule.  The function holds `wrap_lock` from before its first load to after its
   last store (checked on the source by the translator: Gen/LockScope.v, site pid_allocator_allocate); between them it
   performs separate atomic loads and stores.  Here every load and store is its own atomic step, any number of tasks
   call allocate any number of times, and the scheduler is arbitrary: the identifiers handed out are exactly those of
   the sequential model, hence pairwise different (C16) — for EVERY schedule. *)
From EDP Require Import Base.Bytes Gen.PidConsts Gen.LockScope Dist.PidAlloc Dist.PidAllocFacts Conc.Interleave.

Record ast := { mem : pstate; rid : N; rser : N; outs : list pid }.

(* the atomic steps of allocate, in program order *)
Definition load_id (a : ast) : ast := {| mem := mem a; rid := next_id (mem a); rser := rser a; outs := outs a |}.
Definition load_serial (a : ast) : ast := {| mem := mem a; rid := rid a; rser := next_serial (mem a); outs := outs a |}.
Definition store_id (a : ast) : ast :=
  {| mem := {| next_id := if max_processes_per_node <=? rid a then 1 else rid a + 1;
               next_serial := next_serial (mem a); creation := creation (mem a) |};
     rid := rid a; rser := rser a; outs := outs a |}.
(* the wrapping branch bumps the serial with a fetch_add on memory and uses its result; the other uses the loaded one *)
Definition finish (a : ast) : ast :=
  if max_processes_per_node <=? rid a then
    {| mem := {| next_id := next_id (mem a); next_serial := (next_serial (mem a) + 1) mod two64; creation := creation (mem a) |};
       rid := rid a; rser := rser a;
       outs := outs a ++ [{| p_id := rid a; p_serial := (next_serial (mem a) + 1) mod two32; p_creation := creation (mem a) |}] |}
  else
    {| mem := mem a; rid := rid a; rser := rser a;
       outs := outs a ++ [{| p_id := rid a; p_serial := rser a mod two32; p_creation := creation (mem a) |}] |}.

Definition alloc_op : list (ast -> ast) := [load_id; load_serial; store_id; finish].

Definition exec (tr : list (ast -> ast)) (a : ast) : ast := fold_left (fun x f => f x) tr a.

(* one whole operation is one sequential allocate *)
Lemma exec_op a : mem (exec alloc_op a) = snd (allocate (mem a)) /\ outs (exec alloc_op a) = outs a ++ [fst (allocate (mem a))].
Proof.
  unfold exec, alloc_op. cbn [fold_left]. unfold finish, store_id, load_serial, load_id. cbn [rid rser mem outs next_id next_serial creation].
  unfold allocate. destruct (max_processes_per_node <=? next_id (mem a)); cbn [fst snd mem outs next_serial creation next_id]; split; reflexivity.
Qed.

Lemma exec_app t1 t2 a : exec (t1 ++ t2) a = exec t2 (exec t1 a).
Proof. unfold exec. apply fold_left_app. Qed.

Lemma exec_ops : forall k a, mem (exec (concat (repeat alloc_op k)) a) = after k (mem a) /\
  outs (exec (concat (repeat alloc_op k)) a) = outs a ++ allocs k (mem a).
Proof.
  induction k as [|k IH]; intros a; [cbn; now rewrite app_nil_r|].
  cbn [repeat concat]. rewrite exec_app. destruct (exec_op a) as [Hm Ho]. destruct (IH (exec alloc_op a)) as [IHm IHo].
  rewrite IHm, IHo, Hm, Ho. cbn [after allocs]. destruct (allocate (mem a)) as [p st']. cbn [fst snd].
  split; [reflexivity|]. now rewrite <- app_assoc.
Qed.

(* a prefix of the operation that is not the whole operation has not handed out anything yet *)
Lemma exec_partial done rest a : alloc_op = done ++ rest -> rest <> [] -> outs (exec done a) = outs a.
Proof.
  intros H Hr. unfold alloc_op in H.
  destruct done as [|d1 [|d2 [|d3 [|d4 done']]]]; cbn [app] in H.
  - reflexivity.
  - inversion H; subst. reflexivity.
  - inversion H; subst. reflexivity.
  - inversion H; subst. reflexivity.
  - inversion H as [[E1 E2 E3 E4 E5]]. destruct done' as [|x done'']; [cbn [app] in E5; symmetry in E5; contradiction|discriminate].
Qed.

Definition all_alloc (prog : list (list (list (ast -> ast)))) : Prop := Forall (Forall (fun op => op = alloc_op)) prog.

Lemma granted_are_allocs prog s g : all_alloc prog -> Inv _ prog s g -> Forall (fun e => snd e = alloc_op) g.
Proof.
  intros Hall (_ & Hp & _). apply Forall_forall. intros [i op] Hin. cbn [snd].
  assert (Hi : In op (ops_of _ i g)).
  { unfold ops_of. apply in_map_iff. exists (i, op). split; [reflexivity|]. apply filter_In. split; [exact Hin|]. cbn. apply Nat.eqb_refl. }
  assert (Hnth : In op (nth i prog [])) by (rewrite <- (Hp i); apply in_or_app; now left).
  destruct (Nat.lt_ge_cases i (length prog)) as [Hlt|Hge].
  - unfold all_alloc in Hall. rewrite Forall_forall in Hall. specialize (Hall (nth i prog []) (nth_In _ _ Hlt)).
    rewrite Forall_forall in Hall. now apply Hall.
  - rewrite nth_overflow in Hnth by exact Hge. destruct Hnth.
Qed.

Lemma concat_all_alloc : forall (g : list (nat * list (ast -> ast))), Forall (fun e => snd e = alloc_op) g ->
  concat (map snd g) = concat (repeat alloc_op (length g)).
Proof.
  induction g as [|e g IH]; intros H; [reflexivity|]. inversion H as [|? ? He Hg]; subst. cbn [map concat length repeat].
  now rewrite He, IH.
Qed.

(* for every program of allocate calls and every schedule: what has been handed out so far is what the sequential
   allocator hands out in as many calls — whoever made them, in whatever order the lock was granted *)
Theorem allocations_are_sequential prog schedule a0 : all_alloc prog ->
  exists k, (k <= length schedule)%nat /\ outs (exec (trace _ (run _ (start _ prog) schedule)) a0) = outs a0 ++ allocs k (mem a0).
Proof.
  intros Hall. destruct (inv_run_bounded _ prog schedule _ _ (inv_start _ prog)) as (g & HI & Hlen). cbn [length Nat.add] in Hlen.
  pose proof (granted_are_allocs _ _ _ Hall HI) as Hg. destruct HI as (_ & _ & Hh).
  destruct (holder _ (run _ (start _ prog) schedule)) as [[j rest]|].
  - destruct Hh as (pre & op & done & Eg & Eop & Etr). rewrite Etr, exec_app.
    rewrite Eg in Hg. apply Forall_app in Hg as [Hpre Hlast]. inversion Hlast as [|? ? Hop _]; subst. cbn [snd] in Hop.
    rewrite (concat_all_alloc pre Hpre). destruct (exec_ops (length pre) a0) as [Hm Ho].
    destruct rest as [|r0 rest'].
    + (* the whole operation has been performed; only the release is missing *)
      rewrite app_nil_r in Hop. subst done. destruct (exec_op (exec (concat (repeat alloc_op (length pre))) a0)) as [_ Ho2].
      rewrite Ho2, Ho, Hm. exists (S (length pre)). split; [rewrite app_length in Hlen; cbn [length] in Hlen; lia|]. rewrite <- app_assoc. f_equal.
      clear. revert a0. generalize (length pre) as k. induction k as [|k IH]; intros a0; cbn [allocs after].
      * destruct (allocate (mem a0)); reflexivity.
      * destruct (allocate (mem a0)) as [p st'] eqn:E. cbn [snd app]. f_equal.
        specialize (IH {| mem := st'; rid := 0; rser := 0; outs := [] |}). cbn [mem] in IH. exact IH.
    + rewrite (exec_partial done (r0 :: rest') _ (eq_sym Hop) ltac:(discriminate)). exists (length pre). split; [rewrite app_length in Hlen; lia|exact Ho].
  - rewrite Hh, (concat_all_alloc g Hg). exists (length g). split; [exact Hlen|apply exec_ops].
Qed.

Corollary concurrent_pids_unique prog schedule st0 : all_alloc prog -> wf st0 ->
  N.of_nat (length schedule) <= M * PidAlloc.two32 ->
  NoDup (outs (exec (trace _ (run _ (start _ prog) schedule)) {| mem := st0; rid := 0; rser := 0; outs := [] |})).
Proof.
  intros Hall Hwf Hlen. destruct (allocations_are_sequential prog schedule {| mem := st0; rid := 0; rser := 0; outs := [] |} Hall) as (k & Hk & Ho).
  rewrite Ho. cbn [outs mem app]. apply allocs_nodup; [exact Hwf|lia].
Qed.

(* the lock is what the theorem rests on: the translator found it held across the whole body of allocate *)
Lemma allocate_holds_its_lock : forallb snd lock_sites = true.
Proof. vm_compute. reflexivity. Qed.

(* two tasks, three allocations, a schedule that keeps switching between them: the steps never interleave *)
Example two_tasks :
  let a := exec (trace _ (run _ (start _ [[alloc_op; alloc_op]; [alloc_op]]) (concat (repeat [0; 1; 1; 0; 0]%nat 12))))
                {| mem := {| next_id := max_processes_per_node; next_serial := 7; creation := 3 |}; rid := 0; rser := 0; outs := [] |} in
  map (fun p => (p_id p, p_serial p)) (outs a) = [(max_processes_per_node, 8); (1, 8); (2, 8)].
Proof. vm_compute. reflexivity. Qed.
