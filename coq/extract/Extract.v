(* Extraction of the executable models for the correspondence runner.
   Only the directives of ExtrOcamlBasic are used (bool, option, unit, list, prod, sumbool, sumor);
   N, Z, positive and nat stay the extracted inductive datatypes. *)
From Coq Require Import ExtrOcamlBasic.
From EDP Require Import Base.Bytes Dist.Fragment Dist.PidAlloc Dist.Framing Term.Term Order.Cmp Order.HashStream Codec.Encode Codec.Decode Gen.DecoderArms Dist.Control Gen.ControlTable Dist.Md5 Dist.Handshake Codec.DistHeader Elixir.Range Elixir.Wrap Serde.Serde Dist.Receive Dist.Send Node.Node Codec.AtomCache Dist.Connect Node.GenServer Node.GenEvent.
Extraction Blacklist String List Nat.
Extraction "model.ml" Fragment.run Fragment.fev N.of_nat N.to_nat N.add N.mul
  PidAlloc.allocate PidAlloc.make_ref
  Framing.read_all Framing.write_framed Framing.frame
  Term.wf Cmp.cmp_owned Cmp.cmp_borrowed Cmp.teqb Cmp.map_of_list Cmp.map_insert HashStream.hash_eqb
  Encode.encode Decode.decode Decode.parse Decode.parse_body DecoderArms.owned_arms DecoderArms.borrowed_arms
  Control.from_term Control.to_term Control.into_term ControlTable.control_table
  Md5.md5 Handshake.hstep Handshake.hs_init
  DistHeader.encode_multi DistHeader.decode_with_atom_cache DistHeader.long_of_coded DistHeader.atoms_of
  Range.r_len Range.r_empty Range.r_contains Range.it_take Range.it_init
  Wrap.wto_term Wrap.wfrom_term Wrap.kind_of Wrap.set_of_list Wrap.normalize_proplist Wrap.proplist_to_map Wrap.map_to_proplist
  Wrap.to_map_recursive Wrap.is_proplist Wrap.kw_build Wrap.akm_build Wrap.proplist_get_atom_key
  Serde.rser Serde.rde Serde.rwt
  Receive.receive Receive.receive_half Receive.rstate_init Receive.handle_frame Send.send_frame Send.frame_body Send.control_of Send.uses_pass_through
  Node.step Node.node_init
  AtomCache.sender_header AtomCache.meant AtomCache.push
  Connect.connect
  GenServer.demo_run
  GenEvent.demo_estep GenEvent.demo_add GenEvent.demo_einit.
