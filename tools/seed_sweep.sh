#!/bin/sh
# runs the quick checks of the given properties under several seeds; prints the runs that exit non-zero
cd /verif
for p in "$@"; do
  for s in 1 2 3 4 5 6 7 8; do
    out=$(VERIF_SEED=$s ./check $p --tier quick 2>&1); rc=$?
    if [ $rc -ne 0 ]; then echo "FAIL $p seed=$s"; echo "$out" | grep VIOLATION; cp evidence/replays/$(ls -t evidence/replays | head -1) /tmp/sweep_${p}_$s.json; fi
  done
done
echo sweep-done
