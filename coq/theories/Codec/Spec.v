(* The External Term Format as a relation between Erlang values and byte strings (erl_ext_dist): every form a
   conforming peer may use for a value — minimal or not, modern or legacy.  Not covered by this relation: maps (the
   decoder's key order merges keys: recorded findings C03-map-numeric-keys and C03-map-list-improper-keys), compressed terms and the textual FLOAT_EXT
   (they depend on zlib and on the float parser, which are oracles of the decoder's configuration: SpecFacts.compressed_sound,
   float_text_sound), and the two context-dependent tags (LOCAL_EXT, ATOM_CACHE_REF), which have their own theorems.  Definitions only. *)
From EDP Require Import Base.Bytes Term.Term Term.Value Gen.Limits Codec.Decode.

(* OldIndex / OldUniq of NEW_FUN_EXT: SMALL_INTEGER_EXT or a non-negative INTEGER_EXT *)
Inductive int_form : N -> bytes -> Prop :=
| IF_small n : n < 256 -> int_form n [97; n]
| IF_integer n : n < 2147483648 -> int_form n (98 :: be 4 n).

Inductive encodes : value -> bytes -> Prop :=
(* integers: SMALL_INTEGER_EXT, INTEGER_EXT (any 32-bit value, small ones included), SMALL_BIG_EXT / LARGE_BIG_EXT with
   any digit string (high zero digits allowed) *)
| E_small_int n : n < 256 -> encodes (VInt (Z.of_N n)) [97; n]
| E_integer n : n < 4294967296 -> encodes (VInt (to_i32 n)) (98 :: be 4 n)
| E_small_big d sign : len d < 256 -> sign < 2 -> encodes (VInt (big_value (negb (sign =? 0)) d)) (110 :: len d :: sign :: d)
| E_large_big d sign : len d < 4294967296 -> sign < 2 -> encodes (VInt (big_value (negb (sign =? 0)) d)) (111 :: be 4 (len d) ++ sign :: d)
| E_new_float b : b < 18446744073709551616 -> encodes (VFloat b) (70 :: be 8 b)
(* atoms: UTF-8 and Latin-1 forms, short and long length fields *)
| E_atom_utf8 a : utf8_valid a = true -> len a <= max_atom_size -> encodes (VAtom a) (118 :: be 2 (len a) ++ a)
| E_small_atom_utf8 a : utf8_valid a = true -> len a < 256 -> encodes (VAtom a) (119 :: len a :: a)
| E_atom_latin1 a : len a <= max_atom_size -> encodes (VAtom (latin1_to_utf8 a)) (100 :: be 2 (len a) ++ a)
| E_small_atom_latin1 a : len a < 256 -> encodes (VAtom (latin1_to_utf8 a)) (115 :: len a :: a)
(* binaries and bit strings *)
| E_binary b : len b <= max_binary_size -> encodes (VBits b (8 * len b)) (109 :: be 4 (len b) ++ b)
| E_bit_binary b k : len b <= max_binary_size -> 1 <= k -> k <= 8 -> (b = [] -> k = 8) ->
    encodes (VBits b (match b with [] => 0 | _ => 8 * len b - (8 - k) end)) (77 :: be 4 (len b) ++ k :: b)
(* lists: NIL_EXT, STRING_EXT (a list of bytes), LIST_EXT with any tail (a LIST_EXT without elements only as another
   form of the empty list) *)
| E_nil : encodes VNil [106]
| E_string s : len s < 65536 -> encodes (fold_right VCons VNil (map (fun b => VInt (Z.of_N b)) s)) (107 :: be 2 (len s) ++ s)
| E_list vs bs tl btl : encodes_seq vs bs -> encodes tl btl -> len vs <= max_list_size -> (vs <> [] \/ tl = VNil) ->
    encodes (fold_right VCons tl vs) (108 :: be 4 (len vs) ++ bs ++ btl)
(* tuples: either arity field, whatever the arity *)
| E_small_tuple vs bs : encodes_seq vs bs -> len vs < 256 -> encodes (VTuple vs) (104 :: len vs :: bs)
| E_large_tuple vs bs : encodes_seq vs bs -> len vs <= max_tuple_size -> encodes (VTuple vs) (105 :: be 4 (len vs) ++ bs)
(* identifiers: the node name in any atom form; modern and legacy layouts *)
| E_new_pid node bn id ser cr : encodes (VAtom node) bn -> id < 4294967296 -> ser < 4294967296 -> cr < 4294967296 ->
    encodes (VPid node id ser cr) (88 :: bn ++ be 4 id ++ be 4 ser ++ be 4 cr)
| E_pid node bn id ser cr : encodes (VAtom node) bn -> id < 4294967296 -> ser < 4294967296 -> cr < 256 ->
    encodes (VPid node id ser cr) (103 :: bn ++ be 4 id ++ be 4 ser ++ [cr])
| E_v4_port node bn id cr : encodes (VAtom node) bn -> id < 18446744073709551616 -> cr < 4294967296 ->
    encodes (VPort node id cr) (120 :: bn ++ be 8 id ++ be 4 cr)
| E_new_port node bn id cr : encodes (VAtom node) bn -> id < 4294967296 -> cr < 4294967296 ->
    encodes (VPort node id cr) (89 :: bn ++ be 4 id ++ be 4 cr)
| E_port node bn id cr : encodes (VAtom node) bn -> id < 4294967296 -> cr < 256 ->
    encodes (VPort node id cr) (102 :: bn ++ be 4 id ++ [cr])
| E_newer_ref node bn cr ids : encodes (VAtom node) bn -> cr < 4294967296 -> len ids < 65536 ->
    forallb (fun i => i <? 4294967296) ids = true ->
    encodes (VRef node cr ids) (90 :: be 2 (len ids) ++ bn ++ be 4 cr ++ concat (map (be 4) ids))
| E_new_ref node bn cr ids : encodes (VAtom node) bn -> cr < 256 -> len ids < 65536 ->
    forallb (fun i => i <? 4294967296) ids = true ->
    encodes (VRef node cr ids) (114 :: be 2 (len ids) ++ bn ++ cr :: concat (map (be 4) ids))
| E_ref node bn id cr : encodes (VAtom node) bn -> id < 4294967296 -> cr < 256 ->
    encodes (VRef node cr [id]) (101 :: bn ++ be 4 id ++ [cr])
(* EXPORT_EXT: module and function in any atom form, the arity as a small integer *)
| E_export m bm fn bf a : encodes (VAtom m) bm -> encodes (VAtom fn) bf -> a < 256 ->
    encodes (VExtFun m fn a) (113 :: bm ++ bf ++ [97; a])
(* NEW_FUN_EXT: any Size field (the reader does not rely on it), the module in any atom form, OldIndex and OldUniq in
   either integer form, the pid in either layout, the free variables in any forms *)
| E_new_fun size ar uniq idx m bm oi boi ou bou node id ser cr bp frees bfr :
    size < 4294967296 -> ar < 256 -> len uniq = 16 -> idx < 4294967296 -> len frees < 4294967296 ->
    encodes (VAtom m) bm -> int_form oi boi -> int_form ou bou -> encodes (VPid node id ser cr) bp -> encodes_seq frees bfr ->
    encodes (VIntFun ar uniq idx (len frees) m oi ou (VPid node id ser cr) frees)
            (112 :: be 4 size ++ ar :: uniq ++ be 4 idx ++ be 4 (len frees) ++ bm ++ boi ++ bou ++ bp ++ bfr)
with encodes_seq : list value -> bytes -> Prop :=
| ES_nil : encodes_seq [] []
| ES_cons v b vs bs : encodes v b -> encodes_seq vs bs -> encodes_seq (v :: vs) (b ++ bs).

Scheme encodes_mind := Induction for encodes Sort Prop
  with encodes_seq_mind := Induction for encodes_seq Sort Prop.
Combined Scheme encodes_mutind from encodes_mind, encodes_seq_mind.
