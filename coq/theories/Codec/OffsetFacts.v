(* The zero-copy decoder reports, with an error, the offset `original_len - input.len()` of the term it entered last
   (decoder.rs parse_term_borrowed).  The subtraction is in usize: it is within 0..original_len exactly when no nested
   parser is ever entered on an input longer than the original one.  That is a property of the call structure of every
   arm: nested parsers run on what is left of the arm's own input. *)
From EDP Require Import Base.Bytes Term.Term Gen.Tags Gen.Limits Gen.DecoderArms Codec.Decode Codec.DecodeFacts.

Definition agree_upto (L : nat) (s1 s2 : bytes -> pres) : Prop := forall x, (length x <= L)%nat -> s1 x = s2 x.

Lemma seq_with_local s1 s2 k : consumes s1 -> forall n bs, agree_upto (length bs) s1 s2 ->
  seq_with s1 k n bs = seq_with s2 k n bs.
Proof.
  intros Hc. induction k as [|k IH]; intros n bs Ha; cbn [seq_with]; [reflexivity|].
  destruct (n =? 0); [reflexivity|]. rewrite <- (Ha bs (le_n _)).
  destruct (s1 bs) as [t r|e] eqn:E; [|reflexivity].
  apply Hc in E. rewrite (IH (N.pred n) r); [reflexivity|]. intros x Hx. apply Ha. lia.
Qed.

Section Body.
  Variable cfg : dcfg.

  Lemma body_local s1 s2 pid r0 : pid <> 25 -> consumes s1 -> agree_upto (length r0) s1 s2 ->
    parse_body cfg s1 pid r0 = parse_body cfg s2 pid r0.
  Proof.
    intros Hp Hc Ha. pose proof (seq_with_len s1) as Hseq. pose proof (fun k => seq_with_local s1 s2 k Hc) as Hsl.
    unfold parse_body, atom_of.
    destruct pid as [|p]; [reflexivity|].
    do 6 (try (destruct p as [p|p|])); try reflexivity; try (exfalso; apply Hp; reflexivity);
    repeat first
      [ reflexivity
      | match goal with
        | |- context [s2 ?x] =>
            rewrite <- (Ha x) by (repeat match goal with
                                         | H : s1 _ = POk _ _ |- _ => apply Hc in H
                                         | H : seq_with s1 _ _ _ = SOk _ _ |- _ => apply (Hseq _ Hc) in H end; len_facts; lia)
        | |- context [seq_with s2 ?k ?n ?x] =>
            rewrite <- (Hsl k n x) by (intros y Hy; apply Ha;
                                    repeat match goal with
                                         | H : s1 _ = POk _ _ |- _ => apply Hc in H
                                         | H : seq_with s1 _ _ _ = SOk _ _ |- _ => apply (Hseq _ Hc) in H end; len_facts; lia)
        | |- context [match ?e with _ => _ end] => destruct e eqn:?
        end ].
  Qed.
End Body.

(* the parser with the offset bookkeeping made explicit: entering a term on an input longer than the original (the
   subtraction would underflow) is the poison value *)
Fixpoint parse_off (cfg : dcfg) (L : nat) (fuel : nat) (bs : bytes) : pres :=
  match fuel with
  | O => PErr KFuel
  | S f =>
      if (L <? length bs)%nat then PErr KFuel else
      match bs with
      | [] => PErr KEof
      | tag :: r0 =>
          match assoc tag (d_arms cfg) with
          | None => PErr KTag
          | Some pid => parse_body cfg (parse_off cfg L f) pid r0
          end
      end
  end.

Definition no_compressed (arms : list (N * N)) : bool := forallb (fun tp => negb (snd tp =? 25)) arms.

Lemma no_compressed_assoc arms tag : no_compressed arms = true -> assoc tag arms <> Some 25.
Proof.
  intros H E. apply assoc_in in E. unfold no_compressed in H. rewrite forallb_forall in H. specialize (H _ E). discriminate H.
Qed.

(* for an arm table without the compressed arm (whose nested term lives in another buffer): the bookkeeping never
   underflows — the parser with the check is the parser *)
Theorem offsets_never_underflow cfg : no_compressed (d_arms cfg) = true ->
  forall L f bs, (length bs <= L)%nat -> parse_off cfg L f bs = parse cfg f bs.
Proof.
  intros Hn L. induction f as [|f IH]; intros bs Hl; [reflexivity|]. cbn [parse_off parse].
  replace (L <? length bs)%nat with false by (symmetry; apply Nat.ltb_ge; exact Hl).
  destruct bs as [|tag r0]; [reflexivity|]. destruct (assoc tag (d_arms cfg)) as [pid|] eqn:E; [|reflexivity].
  symmetry. apply body_local.
  - intros ->. exact (no_compressed_assoc _ _ Hn E).
  - apply parse_consumes.
  - intros x Hx. symmetry. apply IH. cbn [length] in Hl. lia.
Qed.

Lemma borrowed_arms_no_compressed : no_compressed borrowed_arms = true.
Proof. vm_compute. reflexivity. Qed.
