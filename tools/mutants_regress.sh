#!/bin/sh
# usage: mutants_regress.sh [ids...]  — applies every seeded change (rebased variant if present) to /repo, runs the check of the
# property it breaks, expects exit 1 with a VIOLATION line, and restores /repo. Prints one line per seeded change.
cd /verif
IDS="${*:-$(ls seeded)}"
for m in $IDS; do
  d=seeded/$m
  p=$d/patch.diff
  for alt in $d/patch_rebased*.diff; do [ -f "$alt" ] && p=$alt; done
  prop=${m%-*}
  # a change may be caught by a neighbouring property's check: meta.json names it
  alt=$(python3 -c "import json;print(json.load(open('$d/meta.json')).get('check_with',''))" 2>/dev/null)
  [ -n "$alt" ] && prop=$alt
  out=$(tools/try_mutant.sh "/verif/$p" "$prop" 2>&1)
  if echo "$out" | grep -q "patch does not apply"; then echo "$m NOAPPLY ($p)"; continue; fi
  if echo "$out" | grep -q "check exit=1" && echo "$out" | grep -q "^VIOLATION property=$prop"; then
    echo "$m caught: $(echo "$out" | grep "^$prop quick" | tail -1)"
  else
    # a change may be caught by a neighbouring property's check only
    echo "$m MISSED by $prop: $(echo "$out" | grep "^$prop quick" | tail -1)"
  fi
done
