(* Lock-protected critical sections under any schedule.
   Tasks run operations; an operation is a list of atomic steps (the partial writes of one frame; the load, compute
   and store of one identifier allocation; the lookup and insertion of one registration) performed between acquiring
   and releasing one lock.  A schedule picks, step by step, which task moves; a task that is not the holder cannot
   move while the lock is held.  For EVERY schedule the sequence of atomic steps performed is a concatenation of whole
   operations followed by a prefix of the one in progress, and every task's operations are granted the lock in its
   program order, each exactly once.  Self-contained (no dependency on the other models). *)
From Coq Require Import List Arith Lia Bool.
Import ListNotations.

Section Interleave.
  Variable step : Type.

  Record sys := {
    todo : list (list (list step));      (* per task: the operations it still has to start *)
    holder : option (nat * list step);   (* who holds the lock, and the steps of its operation still to perform *)
    trace : list step                    (* atomic steps performed so far, in order *)
  }.

  Fixpoint set_nth {A} (n : nat) (x : A) (l : list A) : list A :=
    match l, n with
    | [], _ => []
    | _ :: r, O => x :: r
    | y :: r, S n' => y :: set_nth n' x r
    end.

  (* task i is scheduled *)
  Definition move (s : sys) (i : nat) : sys :=
    match holder s with
    | Some (j, rest) =>
        if Nat.eqb i j then
          match rest with
          | [] => {| todo := todo s; holder := None; trace := trace s |}                                  (* release *)
          | a :: rest' => {| todo := todo s; holder := Some (j, rest'); trace := trace s ++ [a] |}        (* one atomic step *)
          end
        else s                                                                                          (* not the holder: cannot move *)
    | None =>
        match nth_error (todo s) i with
        | Some (op :: ops) => {| todo := set_nth i ops (todo s); holder := Some (i, op); trace := trace s |}   (* acquire *)
        | _ => s
        end
    end.

  Definition run (s : sys) (schedule : list nat) : sys := fold_left move schedule s.
  Definition start (prog : list (list (list step))) : sys := {| todo := prog; holder := None; trace := [] |}.

  (* g: the operations granted the lock so far, with their task, in grant order *)
  Definition ops_of (i : nat) (g : list (nat * list step)) : list (list step) :=
    map snd (filter (fun e => Nat.eqb (fst e) i) g).

  Definition Inv (prog : list (list (list step))) (s : sys) (g : list (nat * list step)) : Prop :=
    length (todo s) = length prog /\
    (forall i, ops_of i g ++ nth i (todo s) [] = nth i prog []) /\
    match holder s with
    | None => trace s = concat (map snd g)
    | Some (j, rest) => exists pre op done, g = pre ++ [(j, op)] /\ op = done ++ rest /\ trace s = concat (map snd pre) ++ done
    end.

  Lemma set_nth_length {A} (x : A) : forall l n, length (set_nth n x l) = length l.
  Proof. induction l as [|y l IH]; intros [|n]; cbn [set_nth length]; try reflexivity. now rewrite IH. Qed.

  Lemma nth_set_nth_eq {A} (x d : A) : forall l n, n < length l -> nth n (set_nth n x l) d = x.
  Proof. induction l as [|y l IH]; intros [|n] H; cbn [length] in H; try lia; cbn [set_nth nth]; [reflexivity|apply IH; lia]. Qed.

  Lemma nth_set_nth_neq {A} (x d : A) : forall l n k, n <> k -> nth k (set_nth n x l) d = nth k l d.
  Proof.
    induction l as [|y l IH]; intros [|n] [|k] H; cbn [set_nth nth]; try reflexivity; try lia. apply IH. lia.
  Qed.

  Lemma nth_error_nth {A} (d : A) : forall l n x, nth_error l n = Some x -> nth n l d = x /\ n < length l.
  Proof.
    induction l as [|y l IH]; intros [|n] x H; cbn [nth_error] in H; try discriminate.
    - injection H as <-. cbn. split; [reflexivity|lia].
    - destruct (IH n x H) as [H1 H2]. cbn [nth length]. split; [exact H1|lia].
  Qed.

  Lemma ops_of_app i g h : ops_of i (g ++ h) = ops_of i g ++ ops_of i h.
  Proof. unfold ops_of. now rewrite filter_app, map_app. Qed.

  Lemma inv_move prog s g i : Inv prog s g -> exists g', Inv prog (move s i) g' /\ exists h, g' = g ++ h /\ length h <= 1.
  Proof.
    intros (Hlen & Hprog & Hh). unfold move. destruct (holder s) as [[j rest]|] eqn:Eh.
    - destruct (Nat.eqb i j) eqn:Eij.
      + destruct Hh as (pre & op & done & Hg & Hop & Htr). destruct rest as [|a rest'].
        * exists g. split; [|exists []; split; [now rewrite app_nil_r|cbn; lia]]. split; [exact Hlen|]. split; [exact Hprog|]. cbn [holder trace].
          rewrite Htr, Hg, map_app, concat_app. cbn [map snd concat]. rewrite Hop, !app_nil_r. reflexivity.
        * exists g. split; [|exists []; split; [now rewrite app_nil_r|cbn; lia]]. split; [exact Hlen|]. split; [exact Hprog|]. cbn [holder trace].
          exists pre, op, (done ++ [a]). split; [exact Hg|]. split; [rewrite Hop, <- app_assoc; reflexivity|].
          rewrite Htr, <- app_assoc. reflexivity.
      + exists g. split; [|exists []; split; [now rewrite app_nil_r|cbn; lia]]. split; [exact Hlen|]. split; [exact Hprog|]. now rewrite Eh.
    - destruct (nth_error (todo s) i) as [[|op ops]|] eqn:En.
      + exists g. split; [|exists []; split; [now rewrite app_nil_r|cbn; lia]]. split; [exact Hlen|]. split; [exact Hprog|]. now rewrite Eh.
      + destruct (nth_error_nth [] _ _ _ En) as [Hn Hi].
        exists (g ++ [(i, op)]). split; [|exists [(i, op)]; split; [reflexivity|cbn; lia]]. split; [cbn [todo]; now rewrite set_nth_length|]. split.
        * intros k. cbn [todo]. rewrite ops_of_app. destruct (Nat.eq_dec i k) as [<-|Hne].
          -- rewrite nth_set_nth_eq by exact Hi. unfold ops_of at 2. cbn [filter fst]. rewrite Nat.eqb_refl. cbn [map snd].
             rewrite <- app_assoc. cbn [app]. rewrite <- Hn. apply Hprog.
          -- rewrite nth_set_nth_neq by exact Hne. unfold ops_of at 2. cbn [filter fst].
             replace (Nat.eqb i k) with false by (symmetry; now apply Nat.eqb_neq). cbn [map]. rewrite app_nil_r. apply Hprog.
        * cbn [holder trace]. exists g, op, []. split; [reflexivity|]. split; [reflexivity|]. now rewrite app_nil_r.
      + exists g. split; [|exists []; split; [now rewrite app_nil_r|cbn; lia]]. split; [exact Hlen|]. split; [exact Hprog|]. now rewrite Eh.
  Qed.

  Lemma inv_start prog : Inv prog (start prog) [].
  Proof. split; [reflexivity|]. split; [intros i; reflexivity|reflexivity]. Qed.

  Theorem inv_run prog : forall schedule s g, Inv prog s g -> exists g', Inv prog (run s schedule) g'.
  Proof.
    induction schedule as [|i schedule IH]; intros s g H; [exists g; exact H|].
    destruct (inv_move prog s g i H) as (g' & H' & _). exact (IH _ g' H').
  Qed.

  (* at most one operation is granted per scheduling step *)
  Theorem inv_run_bounded prog : forall schedule s g, Inv prog s g ->
    exists g', Inv prog (run s schedule) g' /\ length g' <= length g + length schedule.
  Proof.
    induction schedule as [|i schedule IH]; intros s g H; [exists g; split; [exact H|cbn; lia]|].
    destruct (inv_move prog s g i H) as (g' & H' & h & -> & Hh). destruct (IH _ _ H') as (g'' & H'' & Hl).
    exists g''. split; [exact H''|]. rewrite app_length in Hl. cbn [length]. lia.
  Qed.

  (* for every schedule: the steps performed are whole operations, one after the other, then a prefix of the
     operation in progress — operations of different tasks never interleave *)
  Theorem never_interleaved prog schedule :
    exists (whole : list (list step)) (partial rest : list step),
      trace (run (start prog) schedule) = concat whole ++ partial /\
      match holder (run (start prog) schedule) with
      | None => partial = []
      | Some (_, r) => r = rest
      end.
  Proof.
    destruct (inv_run prog schedule _ _ (inv_start prog)) as (g & _ & _ & Hh).
    destruct (holder (run (start prog) schedule)) as [[j rest]|].
    - destruct Hh as (pre & op & done & _ & _ & Htr). exists (map snd pre), done, rest. split; [exact Htr|reflexivity].
    - exists (map snd g), [], []. split; [now rewrite app_nil_r|reflexivity].
  Qed.

  (* ... and every task's operations are granted in its program order, each exactly once: what has been granted to a
     task, followed by what it still has to start, is its program *)
  Theorem program_order prog schedule :
    exists g, (forall i, ops_of i g ++ nth i (todo (run (start prog) schedule)) [] = nth i prog []) /\
      match holder (run (start prog) schedule) with
      | None => trace (run (start prog) schedule) = concat (map snd g)
      | Some _ => True
      end.
  Proof.
    destruct (inv_run prog schedule _ _ (inv_start prog)) as (g & _ & Hp & Hh). exists g. split; [exact Hp|].
    destruct (holder (run (start prog) schedule)); [exact I|exact Hh].
  Qed.

  (* at quiescence (nobody holds the lock, nothing left to start) the trace is the concatenation of all operations
     of all tasks, each task's in its own order *)
  Corollary quiescent prog schedule :
    holder (run (start prog) schedule) = None -> (forall i, nth i (todo (run (start prog) schedule)) [] = []) ->
    exists g, trace (run (start prog) schedule) = concat (map snd g) /\ forall i, ops_of i g = nth i prog [].
  Proof.
    intros Hn Hdone. destruct (program_order prog schedule) as (g & Hp & Hh). rewrite Hn in Hh. exists g. split; [exact Hh|].
    intros i. specialize (Hp i). rewrite Hdone, app_nil_r in Hp. exact Hp.
  Qed.
End Interleave.
