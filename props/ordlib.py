"""Universe of terms for the ordering properties (C11, C12), Erlang-order oracle and the narrow
classification of the recorded deviations of `impl Ord` from Erlang's order."""
import itertools, struct
import etf, termgen
from termgen import fbits, big_ast, int_ast


def fl(x):
    return ("f", fbits(x))


def nextafter_bits(b, d):
    return ("f", b + d)


def numeric_leaves():
    out = []
    pts = [0, 1, -1, 255, 256, 2**31 - 1, 2**31, -2**31, -2**31 - 1, 2**32 + 2, 2**32 + 256, 2**53 - 1, 2**53, 2**53 + 1, 2**53 + 2, -(2**53) - 1,
           2**63 - 1, 2**63, 2**63 + 1, -2**63, -2**63 - 1, 2**64 - 1, 2**64, 2**64 + 1, 2**64 + 256, 10**20, 10**20 + 1, -10**20, 256**9 + 5, 256**9 + 2 * 256**8,
           2**1023, 2**1024, 2**1024 - 2**970]
    for n in pts:
        out.append(int_ast(n))
        if -2**63 <= n < 2**63 and not (-2**31 <= n < 2**31):
            out.append(big_ast(n))                 # the representation the wire produces
        if abs(n) < 2**1024:
            try:
                x = float(n)
                out.append(fl(x))
                b = fbits(x)
                out.append(("f", b + 1))
                out.append(("f", b - 1))
            except OverflowError:
                pass
    # big integers as a peer may pad them (high-order zero digits): the decoder keeps the digits it was given
    for n in (1, -1, 255, 2**32 + 2, -(2**53) - 1, 2**63, -2**63, 2**64 + 1):
        d = abs(n).to_bytes(max(1, (abs(n).bit_length() + 7) // 8), "little")
        for total in (len(d) + 1, 9, 12):
            if total > len(d):
                out.append(("g", n < 0, d + bytes(total - len(d))))
    out += [fl(0.0), fl(-0.0), fl(0.5), fl(-0.5), fl(1.5), fl(5e-324), fl(1.7976931348623157e308), fl(-1.7976931348623157e308)]
    seen, res = set(), []
    for t in out:
        k = etf.show(t)
        if k not in seen and (t[0] != "f" or etf.float_frac(t[1]) is not None):
            seen.add(k); res.append(t)
    return res


def other_leaves():
    p1 = (b"n@h", 1, 2, 3, None)
    p2 = (b"n@h", 1, 2, 3, bytes(8) + termgen.modern_id_bytes("pid", b"n@h", 1, 2, 3))
    return [
        ("a", b""), ("a", b"a"), ("a", b"ab"), ("a", b"b"), ("a", "é".encode()), ("a", b"z"), ("a", "ÿ".encode()), ("a", "Ā".encode()),
        ("r", b"n@h", 1, [1, 2, 3], None), ("r", b"n@h", 1, [1, 2], None), ("r", b"n@h", 2, [0], None), ("r", b"m@h", 1, [1, 2, 3], None),
        ("r", b"n@h", 1, [1, 2, 3], bytes(8) + termgen.modern_id_bytes("ref", b"n@h", 1, [1, 2, 3])),
        ("e", b"m", b"f", 1), ("e", b"m", b"f", 2), ("e", b"m", b"g", 1),
        ("u", 1, bytes(16), 1, 0, b"m", 1, 1, p1, []), ("u", 2, bytes(16), 1, 0, b"m", 1, 1, p1, []), ("u", 1, bytes(16), 2, 0, b"m", 1, 1, p1, []),
        ("u", 1, bytes(16), 1, 1, b"m", 1, 1, p1, [("i", 1)]), ("u", 1, bytes(16), 1, 1, b"m", 1, 1, p1, [fl(1.0)]),
        ("o", b"n@h", 1, 1, None), ("o", b"n@h", 2, 1, None), ("o", b"n@h", 1, 2, None), ("o", b"n@h", 1, 1, b"12345678" + termgen.modern_id_bytes("port", b"n@h", 1, 1)),
        ("p",) + p1, ("p",) + p2, ("p", b"n@h", 2, 1, 3, None), ("p", b"n@h", 1, 3, 3, None), ("p", b"n@h", 1, 2, 4, None), ("p", b"m@h", 9, 9, 9, None),
        ("n",), ("l", []),
        ("b", b""), ("b", b"\x00"), ("b", b"a"), ("b", b"ab"), ("b", b"b"), ("b", b"\xab\xc0"), ("s", b"a"), ("s", b"ab"), ("s", b""),
        # byte strings in the legacy list-of-bytes form with the very bytes of a bit string (the term holds a Rust String:
        # valid UTF-8 only)
        ("s", b"a@"), ("s", b"@"), ("B", b"a@", 2), ("B", b"@", 2), ("B", b"a@", 8), ("b", b"a@"),
        ("B", b"\xab\xc0", 2), ("B", b"\xab\xc0", 3), ("B", b"\xab\x80", 1), ("B", b"\xab", 8), ("B", b"a", 8), ("B", b"", 8), ("B", b"\x80", 1), ("B", b"\x00", 1),
        ("B", b"ab\x80", 1),
    ]


def containers(leaves):
    i1, i2, f1, a = ("i", 1), ("i", 2), fl(1.0), ("a", b"a")
    big_a, big_b = int_ast(2**32 + 2), int_ast(2**32 + 256)
    cs = [
        ("t", []), ("t", [i1]), ("t", [i2]), ("t", [f1]), ("t", [i1, i2]), ("t", [i2, i1]), ("t", [a]), ("t", [i1, i1, i1]),
        ("t", [big_ast(2**32 + 2)]), ("t", [big_ast(2**32 + 256)]), ("t", [int_ast(2**53 + 1)]), ("t", [fl(2.0**53)]),
        ("l", [i1]), ("l", [i2]), ("l", [i1, i2]), ("l", [i1, i1]), ("l", [f1]), ("l", [a]), ("l", [i1, i2, ("i", 3)]),
        ("l", [("b", b"a")]), ("l", [("B", b"\x80", 1)]),
        ("L", [i1], i2), ("L", [i1], ("i", 3)), ("L", [i1, i2], ("i", 3)), ("L", [i1], ("b", b"")), ("L", [i1], a), ("L", [i2], i1), ("L", [i1], ("t", [])),
        ("m", []), ("m", [(i1, a)]), ("m", [(i1, ("a", b"b"))]), ("m", [(i2, a)]), ("m", [(f1, a)]), ("m", [(a, i1)]),
        ("m", [(i1, ("i", 5)), (i2, ("i", 0))]), ("m", [(i1, ("i", 3)), (("i", 3), ("i", 0))]), ("m", [(i1, i1), (i2, i2)]), ("m", [(i1, i1), (a, i2)]),
        ("m", [(big_a, i1)]), ("m", [(big_b, i1)]), ("m", [(i1, i2), (fl(2.5), i1)]), ("m", [(i1, i1), (i2, i2), (("i", 3), ("i", 3))]),
    ]
    return cs


def universe(tier):
    leaves = numeric_leaves() + other_leaves()
    u = leaves + containers(leaves)
    return u


# ------------------------------------------------------------------------------------------
# classification of recorded deviations (each class narrow and decidable)

def is_num(t):
    return t[0] in ("i", "g", "f")


def ival(t):
    return t[1] if t[0] == "i" else etf.big_value(t[1], t[2])


def leaf_classes(a, b):
    ka, kb = a[0], b[0]
    cls = set()
    if ka == "g" and kb == "g" and a[1] == b[1] and len(a[2]) == len(b[2]) and len(a[2]) >= 2:
        if (a[2] < b[2]) != (ival(a) * (-1 if a[1] else 1) < ival(b) * (-1 if b[1] else 1)) or True:
            # equal sign, equal digit count: digits compared lexicographically from the LEAST significant byte
            if (a[2] < b[2]) != (int.from_bytes(a[2], "little") < int.from_bytes(b[2], "little")):
                cls.add("C12-big-lexicographic")
    if {ka, kb} <= {"i", "g", "f"} and any(t[0] == "g" and t[2] and t[2][-1] == 0 for t in (a, b)):
        cls.add("C12-padded-big")
    if {ka, kb} <= {"i", "g", "f"} and "f" in (ka, kb) and ka != kb:
        n = ival(a) if ka != "f" else ival(b)
        if abs(n) > 2**53:
            cls.add("C12-lossy-int-float")
    if (ka in ("b", "s") and kb == "B") or (kb in ("b", "s") and ka == "B"):
        cls.add("C12-catchall-binary-bitstring")
    if (ka in ("l", "n") and kb == "L") or (kb in ("l", "n") and ka == "L"):
        cls.add("C12-catchall-list-improper")
    if ka == "L" and kb == "L" and len(a[1]) != len(b[1]):
        cls.add("C12-improper-length")
    return cls


def pair_classes(a, b):
    cls = leaf_classes(a, b)
    ka, kb = a[0], b[0]
    if ka == kb and ka in ("t", "l"):
        for x, y in zip(a[1], b[1]):
            cls |= pair_classes(x, y)
    if ka in ("l", "L") and kb in ("l", "L"):
        for x, y in zip(a[1], b[1]):
            cls |= pair_classes(x, y)
        if ka == "L" and kb == "L":
            cls |= pair_classes(a[2], b[2])
    if ka == "m" and kb == "m":
        if len(a[1]) == len(b[1]) and len(a[1]) >= 2:
            cls.add("C12-map-interleave")
        for (k1, v1), (k2, v2) in itertools.product(a[1], b[1]):
            cls |= pair_classes(k1, k2) | pair_classes(v1, v2)
            if is_num(k1) and is_num(k2) and (k1[0] == "f") != (k2[0] == "f") and etf.erl_cmp(etf.denote(k1), etf.denote(k2)) == 0:
                cls.add("C12-map-key-exact")
        # two keys of ONE map that fall in a deviation class (the lossy comparison identifies 2^53.0 and 2^53+1, say):
        # the map the library holds has fewer entries or another key order than the value, for the same reason
        for m in (a, b):
            for (k1, _), (k2, _) in itertools.combinations(m[1], 2):
                cls |= pair_classes(k1, k2)
    if ka == "u" and kb == "u":
        for x, y in zip(a[9], b[9]):
            cls |= pair_classes(x, y)
    return cls


SIGN = {"lt": -1, "eq": 0, "gt": 1}


def parse_out(impl):
    d = dict(p.split("=") for p in impl.split())
    return d


def expected(a, b):
    va, vb = etf.denote(a), etf.denote(b)
    return etf.erl_cmp(va, vb)


def noncanonical(t, padded_ok=False):
    """terms whose representation is not what the wire or the constructors produce for their value (outside wf for
    the order properties): improper list with a list/nil tail, non-minimal big digits, integers that fit i64 held as bigs
    below the i32 boundary, unused low bits of a bit-string set"""
    k = t[0]
    if k == "L":
        return not t[1] or t[2][0] in ("l", "n", "L") or any(noncanonical(x) for x in t[1]) or noncanonical(t[2])
    if k == "g":
        if padded_ok and len(t[2]) > 0 and t[2][-1] == 0:
            return False          # a padded big integer: what the decoder returns for a non-minimal encoding
        return (len(t[2]) > 0 and t[2][-1] == 0) or len(t[2]) == 0 or -2**31 <= etf.big_value(t[1], t[2]) < 2**31
    if k == "B":
        return bool(t[1]) and (t[1][-1] & ((1 << (8 - t[2])) - 1)) != 0
    if k in ("l", "t"):
        return any(noncanonical(x) for x in t[1])
    if k == "m":
        return any(noncanonical(x) or noncanonical(y) for x, y in t[1])
    if k == "u":
        return any(noncanonical(x) for x in t[9])
    return False
