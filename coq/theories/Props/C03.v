(* C03 — every valid external encoding of a value decodes to exactly that value.
   The format is stated as a relation between values and byte strings (Codec/Spec.v: every minimal, non-minimal, modern
   and legacy form, nested arbitrarily); C03_every_form_same_value is the decoder's soundness for it, for all values.
   Maps have their own theorem (C03_map_keeps_every_entry: nothing is lost when the keys are lawful and denote different
   values; the recorded findings are exactly the keys outside that class).  Compressed terms and the textual float
   depend on zlib and on Rust's float parser, which enter as oracles (C03_compressed_form, C03_float_text_form).
   Outside (correspondence only): LOCAL_EXT and ATOM_CACHE_REF, which are context dependent. *)
From EDP Require Import Base.Bytes Term.Term Term.Value Gen.Tags Gen.Limits Gen.DecoderArms.
From EDP Require Import Codec.Encode Codec.Decode Codec.DecodeFacts Codec.Norm Codec.RoundTrip Codec.RoundTrip2 Codec.Spec Codec.SpecFacts.

Section C03.
  Variable cfg : dcfg.
  Hypothesis Harms : d_arms cfg = owned_arms.

  (* every valid encoding of a value — whichever legal forms are mixed inside it — is consumed exactly and decodes to a
     term denoting that value *)
  Theorem C03_every_form_same_value : forall v b, encodes v b ->
    (1 <= length b)%nat /\
    forall f rest, (length b < f)%nat ->
      exists t, parse cfg f (b ++ rest) = POk t rest /\ denote t = v /\
                (forall a, v = VAtom a -> t = TAtom a) /\ (forall n i s c, v = VPid n i s c -> exists p, t = TPid p).
  Proof.
    intros v b H. destruct (proj1 (spec_sound cfg Harms) v b H) as [Hl Hp]. split; [exact Hl|].
    intros f rest Hf. destruct (Hp f rest Hf) as (t & Et & Dt & Hs). exists t. split; [exact Et|]. split; [exact Dt|].
    split; [intros a ->; exact Hs|intros n i s c ->; exact Hs].
  Qed.

  (* a fun of a conforming peer — any Size field, the module in a legacy atom form, OldIndex as INTEGER_EXT, the pid in
     the legacy layout, a free variable as a non-minimal big integer — is in the relation *)
  Example C03_example_new_fun :
    encodes (VIntFun 2 (repeat 7 16) 3 1 [109] 5 6 (VPid [110] 1 2 3) [VInt 9])
            (112 :: be 4 99 ++ 2 :: repeat 7 16 ++ be 4 3 ++ be 4 1 ++ [115; 1; 109] ++ (98 :: be 4 5) ++ [97; 6] ++
             (103 :: [119; 1; 110] ++ be 4 1 ++ be 4 2 ++ [3]) ++ ([110; 2; 0; 9; 0] ++ [])).
  Proof.
    apply (E_new_fun 99 2 (repeat 7 16) 3 [109] [115; 1; 109] 5 (98 :: be 4 5) 6 [97; 6] [110] 1 2 3
             (103 :: [119; 1; 110] ++ be 4 1 ++ be 4 2 ++ [3]) [VInt 9] ([110; 2; 0; 9; 0] ++ []));
      try reflexivity.
    - exact (E_small_atom_latin1 [109] ltac:(reflexivity)).
    - apply IF_integer. reflexivity.
    - apply IF_small. reflexivity.
    - apply (E_pid [110] [119; 1; 110] 1 2 3); try reflexivity. exact (E_small_atom_utf8 [110] ltac:(reflexivity) ltac:(reflexivity)).
    - apply ES_cons; [exact (E_small_big [9; 0] 0 ltac:(reflexivity) ltac:(reflexivity))|apply ES_nil].
  Qed.

  Theorem C03_decode_every_form : forall v b, encodes v b -> exists t, decode cfg (tag_version :: b) = DOk t /\ denote t = v.
  Proof. exact (decode_sound cfg Harms). Qed.

  (* COMPRESSED: 80, UncompressedSize, a zlib stream inflating to any encoding of the value (d_inflate is zlib: what the
     stream inflates to and how many bytes of input it took): the term denotes the value, reading resumes after the stream *)
  Theorem C03_compressed_form : forall v payload extra z rest usz f,
    encodes v payload -> d_inflate cfg (z ++ rest) = Some (payload ++ extra, len z) ->
    len (payload ++ extra) <= usz -> usz <= max_binary_size -> (length payload + 1 < f)%nat ->
    exists t, parse cfg f (80 :: be 4 usz ++ z ++ rest) = POk t rest /\ denote t = v.
  Proof. exact (compressed_sound cfg Harms). Qed.

  Theorem C03_decode_compressed : forall v payload extra z usz,
    encodes v payload -> d_inflate cfg z = Some (payload ++ extra, len z) ->
    len (payload ++ extra) <= usz -> usz <= max_binary_size -> (length payload <= d_extra_fuel cfg)%nat ->
    exists t, decode cfg (tag_version :: 80 :: be 4 usz ++ z) = DOk t /\ denote t = v.
  Proof. exact (decode_compressed cfg Harms). Qed.

  (* FLOAT_EXT: 31 bytes of text; the number a text denotes is the oracle d_float_text *)
  Theorem C03_float_text_form : forall txt b rest f,
    len txt = 31 -> utf8_valid txt = true -> d_float_text cfg (trim_nul txt) = Some b ->
    parse cfg (S f) (99 :: txt ++ rest) = POk (TFloat b) rest /\ denote (TFloat b) = VFloat b.
  Proof. exact (float_text_sound cfg Harms). Qed.

  Theorem C03_trailing_after_every_form : forall v b x r, encodes v b ->
    decode cfg (tag_version :: b ++ x :: r) = DTrailing (len (x :: r)).
  Proof. intros v b x r H. exact (decode_trailing cfg Harms v b x r H). Qed.

  (* the relation is inhabited by mixtures: {[1 | <<>>], 'é' (Latin-1 form), 2^40 as a 9-digit big integer} in a
     LARGE_TUPLE_EXT *)
  Example C03_example_mixture :
    encodes (VTuple [VCons (VInt 1) (VBits [] 0); VAtom [195; 169]; VInt 1099511627776])
            ([105; 0; 0; 0; 3] ++ ([108; 0; 0; 0; 1] ++ [98; 0; 0; 0; 1] ++ [109; 0; 0; 0; 0]) ++ [115; 1; 233] ++ [110; 9; 0; 0; 0; 0; 0; 0; 1; 0; 0; 0]).
  Proof.
    apply (E_large_tuple [VCons (VInt 1) (VBits [] 0); VAtom [195; 169]; VInt 1099511627776]
             (([108; 0; 0; 0; 1] ++ [98; 0; 0; 0; 1] ++ [109; 0; 0; 0; 0]) ++ [115; 1; 233] ++ [110; 9; 0; 0; 0; 0; 0; 0; 1; 0; 0; 0] ++ [])); [|vm_compute; discriminate].
    apply ES_cons.
    - apply (E_list [VInt 1] [98; 0; 0; 0; 1] (VBits [] 0) [109; 0; 0; 0; 0]).
      + change [98; 0; 0; 0; 1] with ([98; 0; 0; 0; 1] ++ []). apply ES_cons; [exact (E_integer 1 ltac:(reflexivity))|apply ES_nil].
      + exact (E_binary [] ltac:(vm_compute; discriminate)).
      + vm_compute; discriminate.
      + left; discriminate.
    - apply ES_cons; [exact (E_small_atom_latin1 [233] ltac:(reflexivity))|].
      apply ES_cons; [exact (E_small_big [0; 0; 0; 0; 0; 1; 0; 0; 0] 0 ltac:(reflexivity) ltac:(reflexivity))|apply ES_nil].
  Qed.

  (* bytes remaining after one complete term are reported, never ignored *)
  Theorem C03_trailing_reported : forall t, wf t = true -> rt_ok (d_kcmp cfg) (d_kinsert cfg) t ->
    forall b, enc t = EOk b -> forall x r, decode cfg (tag_version :: b ++ x :: r) = DTrailing (len (x :: r)).
  Proof.
    intros t Hwf Hok b Eb x r.
    destruct (roundtrip cfg Harms (d_kcmp cfg) (d_kinsert cfg) eq_refl eq_refl t Hwf Hok) as (b' & Eb' & _ & Pb).
    rewrite Eb in Eb'. inversion Eb'; subst b'.
    unfold decode. rewrite N.eqb_refl. rewrite Pb by (rewrite app_length; cbn [length]; lia). reflexivity.
  Qed.

  (* INTEGER_EXT at any width-4 value, including values that would fit SMALL_INTEGER_EXT *)
  Theorem C03_integer_ext_any : forall f n rest, n < 4294967296 ->
    parse cfg (S f) (98 :: be 4 n ++ rest) = POk (TInt (to_i32 n)) rest.
  Proof. intros f n rest Hn. exact (p_integer cfg Harms f n rest Hn). Qed.

  (* SMALL_BIG_EXT / LARGE_BIG_EXT with any digit string, minimal or not: the value is the little-endian number *)
  Theorem C03_small_big_any : forall f d sign rest, len d < 256 ->
    exists t, parse cfg (S f) (110 :: len d :: sign :: d ++ rest) = POk t rest /\ denote t = VInt (big_value (negb (sign =? 0)) d).
  Proof. intros f d sign rest Hd. eexists. split; [exact (p_small_big cfg Harms f d sign rest Hd)|reflexivity]. Qed.

  (* SMALL_ATOM_UTF8_EXT / ATOM_UTF8_EXT for every UTF-8 name up to 65535 bytes *)
  Theorem C03_atom_utf8_both_tags : forall f a rest, utf8_valid a = true -> len a <= 65535 ->
    parse cfg (S f) (118 :: be 2 (len a) ++ a ++ rest) = POk (TAtom a) rest /\
    (len a <= 255 -> parse cfg (S f) (119 :: len a :: a ++ rest) = POk (TAtom a) rest).
  Proof.
    intros f a rest Hu Hl. split.
    - rewrite (parse_S cfg Harms). change (assoc 118 owned_arms) with (assoc tag_atom_utf8_ext owned_arms). rewrite arm_atom_utf8.
      unfold parse_body, parse_atom_bytes. rewrite rd_app by (cbn; lia).
      replace (max_atom_size <? len a) with false by (symmetry; apply N.ltb_ge; unfold max_atom_size; lia).
      now rewrite takeN_app, Hu.
    - intros Hs. rewrite (parse_S cfg Harms). change (assoc 119 owned_arms) with (assoc tag_small_atom_utf8_ext owned_arms). rewrite arm_small_atom_utf8.
      unfold parse_body, parse_atom_bytes. rewrite rd1.
      replace (max_atom_size <? len a) with false by (symmetry; apply N.ltb_ge; unfold max_atom_size; lia).
      now rewrite takeN_app, Hu.
  Qed.

  (* ATOM_EXT / SMALL_ATOM_EXT: Latin-1, every byte one code point (fix commit 56c66fc) *)
  Theorem C03_atom_latin1 : forall f a rest, len a <= 255 ->
    parse cfg (S f) (115 :: len a :: a ++ rest) = POk (TAtom (latin1_to_utf8 a)) rest.
  Proof.
    intros f a rest Hl. rewrite (parse_S cfg Harms).
    assert (E : assoc 115 owned_arms = Some 8) by (vm_compute; reflexivity). rewrite E.
    unfold parse_body, parse_atom_latin1. rewrite rd1.
    replace (max_atom_size <? len a) with false by (symmetry; apply N.ltb_ge; unfold max_atom_size; lia).
    now rewrite takeN_app.
  Qed.

  (* STRING_EXT: a list of the byte values *)
  Theorem C03_string_ext : forall f s rest, len s < 65536 ->
    parse cfg (S f) (107 :: be 2 (len s) ++ s ++ rest) = POk (TList (map (fun b => TInt (Z.of_N b)) s)) rest.
  Proof.
    intros f s rest Hl. rewrite (parse_S cfg Harms).
    assert (E : assoc 107 owned_arms = Some 12) by (vm_compute; reflexivity). rewrite E.
    unfold parse_body. rewrite rd_app by (cbn; lia). now rewrite takeN_app.
  Qed.

  (* legacy PID_EXT (1-byte creation), NEW_PORT_EXT (fix commit dfdc6c6), PORT_EXT *)
  Theorem C03_pid_ext_legacy : forall f node ba id ser cr rest,
    wf_atom node = true -> enc_atom node = EOk ba -> id < 4294967296 -> ser < 4294967296 -> cr < 256 ->
    parse cfg (S (S f)) (103 :: ba ++ be 4 id ++ be 4 ser ++ cr :: rest)
      = POk (TPid {| pnode := node; pnum := id; pserial := ser; pcreation := cr; ploc := None |}) rest.
  Proof.
    intros f node ba id ser cr rest Hw Ea Hi Hs Hc. rewrite (parse_S cfg Harms).
    assert (E : assoc 103 owned_arms = Some 28) by (vm_compute; reflexivity). rewrite E.
    unfold parse_body, atom_of. rewrite (p_atom cfg Harms f node _ ba Hw Ea).
    rewrite rd_app by (cbn; lia). rewrite rd_app by (cbn; lia). now rewrite rd1.
  Qed.

  Theorem C03_new_port_ext : forall f node ba id cr rest,
    wf_atom node = true -> enc_atom node = EOk ba -> id < 4294967296 -> cr < 4294967296 ->
    parse cfg (S (S f)) (89 :: ba ++ be 4 id ++ be 4 cr ++ rest) = POk (TPort node id cr None) rest.
  Proof.
    intros f node ba id cr rest Hw Ea Hi Hc. rewrite (parse_S cfg Harms).
    assert (E : assoc 89 owned_arms = Some 32) by (vm_compute; reflexivity). rewrite E.
    unfold parse_body, atom_of. rewrite (p_atom cfg Harms f node _ ba Hw Ea).
    rewrite rd_app by (cbn; lia). now rewrite rd_app by (cbn; lia).
  Qed.

  (* LARGE_TUPLE_EXT is accepted for small arities too (non-minimal form) *)
  Theorem C03_large_tuple_empty : forall f rest, parse cfg (S f) (105 :: 0 :: 0 :: 0 :: 0 :: rest) = POk (TTuple []) rest.
  Proof.
    intros f rest. rewrite (parse_S cfg Harms). change (assoc 105 owned_arms) with (assoc tag_large_tuple_ext owned_arms). rewrite arm_large_tuple.
    reflexivity.
  Qed.
End C03.

(* every tag of the format that an OTP 26+ peer may emit or the decoder claims to accept has an arm *)
Theorem C03_no_missing_tags :
  forallb (fun tag => match assoc tag owned_arms with Some _ => true | None => false end)
    [70; 77; 80; 88; 89; 90; 97; 98; 99; 100; 101; 102; 103; 104; 105; 106; 107; 108; 109; 110; 111; 112; 113; 114; 115; 116; 118; 119; 120; 121] = true.
Proof. vm_compute. reflexivity. Qed.

(* recorded finding C03-map-numeric-keys on the faithful model (key order = the model of impl Ord) *)
From EDP Require Import Order.Cmp.
Theorem C03_refuted_numeric_keys :
  let cfg := {| d_arms := owned_arms; d_cache := []; d_refs := []; d_inflate := fun _ => None; d_float_text := fun _ => None;
                d_kcmp := cmp_owned; d_kinsert := map_insert; d_extra_fuel := 0 |} in
  (* #{1 => 10, 1.0 => 20} *)
  decode cfg [131; 116; 0; 0; 0; 2; 97; 1; 97; 10; 70; 63; 240; 0; 0; 0; 0; 0; 0; 97; 20] = DOk (TMap [(TInt 1, TInt 20)]).
Proof. vm_compute. reflexivity. Qed.

(* ---- maps ----
   MAP_EXT is decoded into a BTreeMap ordered by the term comparison.  On keys that are lawful for that comparison (no
   floats, no improper lists, no internal funs, integers in minimal digits) Equal means "same Erlang value"; so
   when the decoded keys denote pairwise different values every entry of the wire is in the result exactly once, whatever
   the wire order.  (Keys outside the class are the recorded findings C03-map-numeric-keys / -list-improper-keys.) *)
From EDP Require Import Order.Cmp Order.Key Order.KeyFacts.
From Coq Require Import Permutation.

Theorem C03_equal_keys_same_value : forall a b, tcl0 a -> tcl0 b -> cmp_owned a b = Eq -> denote a = denote b.
Proof. exact cmp_eq_same_value. Qed.

Theorem C03_map_keeps_every_entry : forall cfg, d_arms cfg = owned_arms -> d_kcmp cfg = cmp_owned -> d_kinsert cfg = map_insert ->
  forall f n r l r', n < 4294967296 -> n <= max_map_size ->
  seq_with (parse cfg f) (S (length r)) (2 * n) r = SOk l r' -> distinct_values [] (pair_up l) ->
  exists m, parse cfg (S f) (tag_map_ext :: be 4 n ++ r) = POk (TMap m) r' /\ Permutation (pair_up l) m.
Proof. intros cfg Ha Hk Hi. exact (map_ext_decodes cfg Ha Hk Hi). Qed.

(* the premises are met by a map with an integer, a big integer beyond i64, an atom, a tuple and a list as keys, sent in
   descending order: all five entries come back, in key order *)
Example C03_map_example :
  let cfg := {| d_arms := owned_arms; d_cache := []; d_refs := []; d_inflate := fun _ => None; d_float_text := fun _ => None;
                d_kcmp := cmp_owned; d_kinsert := map_insert; d_extra_fuel := 0 |} in
  let l := [(TList [TInt 1], TInt 5); (TTuple [TAtom [97]], TInt 4); (TAtom [97], TInt 3);
            (TBig false [0; 0; 0; 0; 0; 0; 0; 0; 1], TInt 2); (TInt 7, TInt 1)] in
  distinct_values [] l /\ map_of_list cmp_owned l = rev l.
Proof.
  cbv zeta. split; [|vm_compute; reflexivity].
  cbn [distinct_values fst In]. repeat split; try exact I; try (cbn [tcl0 int_term]; repeat split; try lia; try exact I; try discriminate).
  all: try (intros kv' Hin; repeat destruct Hin as [<-|Hin]; try contradiction; cbn [fst denote]; discriminate).
  all: try (repeat constructor; lia). all: try (unfold Order.NumLaws.minimal; cbn; discriminate).
Qed.

(* the premises of the compressed and textual-float forms are satisfiable: a configuration whose zlib knows one stored
   stream (CMF/FLG, one stored block holding `97 5`, Adler-32) and whose float parser knows one text *)
From EDP Require Import Order.Cmp.
Definition stream_5 : bytes := [120; 1; 1; 2; 0; 253; 255; 97; 5; 0; 206; 0; 103].
Definition text_1_5 : bytes := [49; 46; 53; 48; 48; 48; 48; 48; 48; 48; 48; 48; 48; 48; 48; 48; 48; 48; 48; 48; 48; 48; 101; 43; 48; 48; 0; 0; 0; 0; 0].
Definition cfg_ex : dcfg :=
  {| d_arms := owned_arms; d_cache := []; d_refs := [];
     d_inflate := fun z => if eq_bytes (firstn 13 z) stream_5 then Some ([97; 5], 13) else None;
     d_float_text := fun t => if eq_bytes t (firstn 26 text_1_5) then Some 4609434218613702656 else None;
     d_kcmp := cmp_owned; d_kinsert := map_insert; d_extra_fuel := 2 |}.
Example C03_example_compressed :
  encodes (VInt 5) [97; 5] /\ d_inflate cfg_ex (stream_5 ++ [106]) = Some ([97; 5] ++ [], len stream_5) /\
  parse cfg_ex 4 (80 :: be 4 2 ++ stream_5 ++ [106]) = POk (TInt 5) [106] /\
  decode cfg_ex (tag_version :: 80 :: be 4 2 ++ stream_5) = DOk (TInt 5) /\
  parse cfg_ex 1 (99 :: text_1_5 ++ [106]) = POk (TFloat 4609434218613702656) [106].
Proof.
  split; [exact (E_small_int 5 ltac:(reflexivity))|]. repeat split; vm_compute; reflexivity.
Qed.

(* the recorded finding C03-map-list-improper-keys on the model: #{[1] => 1, [1|2] => 2}, two entries on the wire, one
   after decoding (the order answers Equal for a list against an improper list) *)
Theorem C03_refuted_list_improper_keys :
  decode cfg_ex [131; 116; 0; 0; 0; 2; 108; 0; 0; 0; 1; 97; 1; 106; 97; 1; 108; 0; 0; 0; 1; 97; 1; 97; 2; 97; 2]
  = DOk (TMap [(TList [TInt 1], TInt 2)]).
Proof. vm_compute. reflexivity. Qed.

Check C03_trailing_reported.
