#!/bin/sh
# usage: confirm_mutant.sh <worktree> <mutdir> — confirms a seeded change in a scratch worktree:
#   demo passes on pristine, fails with the patch; workspace tests fail only where pristine fails.
# writes <mutdir>/confirm.log ; needs /tmp/mut/out/pristine_failed_names.txt (names of tests failing on pristine)
set -u
WT="$1"; MD="$2"
export CARGO_NET_OFFLINE=true CARGO_TARGET_DIR="$WT/target"
LOG="$MD/confirm.log"; : > "$LOG"
DEMO=$(python3 -c "import json;print(json.load(open('$MD/meta.json'))['demo_path'])")
CMD=$(python3 -c "import json,re;print(re.sub(r'(CARGO_TARGET_DIR|CARGO_NET_OFFLINE)=\S+\s*','',json.load(open('$MD/meta.json'))['demo_cmd']).replace('cd <worktree> && ','').replace('<worktree>','$WT'))")
cd "$WT" || exit 2
git checkout -q -- . && git clean -qfd crates
mkdir -p "$(dirname "$DEMO")"; cp "$MD/demo.rs" "$DEMO"
echo "== demo on pristine: $CMD" >> "$LOG"
( sh -c "$CMD" ) >> "$LOG" 2>&1; R1=$?
git apply "$MD/patch.diff" || { echo "PATCH DOES NOT APPLY" >> "$LOG"; exit 2; }
echo "== demo with patch" >> "$LOG"
( sh -c "$CMD" ) >> "$LOG" 2>&1; R2=$?
rm -f "$DEMO"
echo "== workspace tests with patch" >> "$LOG"
cargo test --workspace --no-fail-fast --offline 2>&1 | grep -E "^test .* FAILED$" | sed 's/ \.\.\. FAILED//' | sort -u > "$MD/with_patch_failed_names.txt"
git checkout -q -- . && git clean -qfd crates
NEW=$(comm -13 /tmp/mut/out/pristine_failed_names.txt "$MD/with_patch_failed_names.txt" | tr '\n' ' ')
echo "demo pristine rc=$R1 (want 0), with patch rc=$R2 (want !=0); tests failing with the patch but not on pristine: [${NEW}]" | tee -a "$LOG"
