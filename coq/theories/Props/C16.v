(* C16 — allocated pids and references are unique.  Only property theorems here. *)
From EDP Require Import Base.Bytes Gen.PidConsts Dist.PidAlloc Dist.PidAllocFacts.

(* Any number k <= MAX_PROCESSES_PER_NODE * 2^32 (= 2^52 on the pinned tree) of consecutive allocations,
   started from ANY valid counter position (any id in 1..MAX incl. the wrap point, any serial below 2^63,
   in particular just before the serial's 32-bit wrap), yields pairwise distinct pids. *)
Theorem C16_seq_unique : forall k st, wf st -> N.of_nat k <= M * two32 -> NoDup (allocs k st).
Proof. exact allocs_nodup. Qed.

(* the k-th pid is a closed-form function of the allocator's position *)
Theorem C16_alloc_closed_form : forall k st, 1 <= next_id st <= M -> next_serial st + N.of_nat k < two64 ->
  allocs k st = map (fun j => pid_at (creation st) (pos st + N.of_nat j)) (seq 0 k).
Proof. exact allocs_pos. Qed.

(* exhaustion of the id space advances the serial instead of re-issuing a number *)
Theorem C16_wrap_advances_serial : forall st, next_id st = M -> next_serial st + 1 < two64 ->
  p_serial (fst (allocate st)) = (next_serial st + 1) mod two32
  /\ next_id (snd (allocate st)) = 1 /\ next_serial (snd (allocate st)) = next_serial st + 1.
Proof. exact wrap_advances. Qed.

(* every pid carries the creation in force *)
Theorem C16_creation : forall k st p, In p (allocs k st) -> p_creation p = creation st.
Proof. exact allocs_creation. Qed.

(* references: k calls hand out 3k consecutive counter words; distinct while 3k <= 2^32 *)
Theorem C16_refs_unique : forall k c, c < two32 -> 3 * N.of_nat k <= two32 -> NoDup (refs k c).
Proof. exact refs_nodup. Qed.

(* non-vacuity: the hypotheses are met at the wrap point just before the serial's 32-bit wrap *)
Example C16_example :
  wf {| next_id := 1048575; next_serial := 4294967295; creation := 7 |} /\
  allocs 4 {| next_id := 1048575; next_serial := 4294967295; creation := 7 |} =
   [ {| p_id := 1048575; p_serial := 4294967295; p_creation := 7 |};
     {| p_id := 1048576; p_serial := 0; p_creation := 7 |};
     {| p_id := 1; p_serial := 0; p_creation := 7 |};
     {| p_id := 2; p_serial := 0; p_creation := 7 |} ].
Proof. split; [unfold wf, M, max_processes_per_node; cbn; lia|vm_compute; reflexivity]. Qed.

Check C16_seq_unique : forall k st, wf st -> N.of_nat k <= M * two32 -> NoDup (allocs k st).
