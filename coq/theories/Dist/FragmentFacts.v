(* Lemmas about the fragment assembler model (proofs live here, not in Fragment.v). *)
From EDP Require Import Base.Bytes Gen.FragConsts Dist.Fragment.

(* ---------- association lists ---------- *)
Lemma lookup_remove_same {A} k (l : list (N * A)) : lookup k (remove_key k l) = None.
Proof.
  induction l as [|[k' v] l IH]; cbn [remove_key lookup]; [reflexivity|].
  destruct (k' =? k) eqn:E; [exact IH|]. cbn [lookup]. now rewrite E.
Qed.

Lemma lookup_remove_other {A} k k' (l : list (N * A)) : k <> k' -> lookup k (remove_key k' l) = lookup k l.
Proof.
  intros Hne. induction l as [|[k0 v] l IH]; cbn [remove_key lookup]; [reflexivity|].
  destruct (k0 =? k') eqn:E1.
  - apply N.eqb_eq in E1; subst. destruct (k' =? k) eqn:E2; [apply N.eqb_eq in E2; congruence|exact IH].
  - cbn [lookup]. now rewrite IH.
Qed.

Lemma lookup_put_same {A} k (v : A) l : lookup k (put k v l) = Some v.
Proof. unfold put. cbn [lookup]. now rewrite N.eqb_refl. Qed.

Lemma lookup_put_other {A} k k' (v : A) l : k <> k' -> lookup k (put k' v l) = lookup k l.
Proof.
  intros Hne. unfold put. cbn [lookup].
  destruct (k' =? k) eqn:E; [apply N.eqb_eq in E; congruence|]. now apply lookup_remove_other.
Qed.

(* ---------- per-sequence view of the assembler ---------- *)
(* what start_fragment / add_fragment do to the entry of their own sequence *)
Definition seq_start (o : option fmsg) (fid : N) (c : option bytes) (data : bytes) (now : N)
  : option fmsg * option bytes :=
  match count_new fid with
  | None => (o, None)
  | Some cnt =>
      match o with
      | Some m =>
          let m := msg_add (set_cache (msg_set_total m cnt) c) fid data now in
          if msg_complete m then (None, msg_reassemble m) else (Some m, None)
      | None =>
          let m := msg_add (msg_new (Some cnt) c now) fid data now in
          if msg_complete m then (None, msg_reassemble m) else (Some m, None)
      end
  end.

Definition seq_add (o : option fmsg) (fid : N) (data : bytes) (now : N) : option fmsg * option bytes :=
  match o with
  | Some m =>
      let m := msg_add m fid data now in
      if msg_complete m then (None, msg_reassemble m) else (Some m, None)
  | None => (Some (msg_add (msg_new None None now) fid data now), None)
  end.

Lemma msg_new_none_incomplete now fid data : msg_complete (msg_add (msg_new None None now) fid data now) = false.
Proof.
  unfold msg_add, msg_new, touch; cbn [total pend frags received cache last].
  destruct (fid =? 0); [reflexivity|]. cbn [lookup]. reflexivity.
Qed.

Lemma asm_start_own a s fid c d now :
  lookup s (fst (asm_start a s fid c d now)) = fst (seq_start (lookup s a) fid c d now)
  /\ snd (asm_start a s fid c d now) = snd (seq_start (lookup s a) fid c d now).
Proof.
  unfold asm_start, seq_start. destruct (count_new fid) as [cnt|]; [|split; reflexivity].
  destruct (lookup s a) as [m|] eqn:E.
  - destruct (msg_complete _); cbn [fst snd]; split; try reflexivity.
    + apply lookup_remove_same.
    + apply lookup_put_same.
  - destruct (msg_complete _); cbn [fst snd]; split; try reflexivity.
    + exact E.
    + apply lookup_put_same.
Qed.

Lemma asm_add_own a s fid d now :
  lookup s (fst (asm_add a s fid d now)) = fst (seq_add (lookup s a) fid d now)
  /\ snd (asm_add a s fid d now) = snd (seq_add (lookup s a) fid d now).
Proof.
  unfold asm_add, seq_add. destruct (lookup s a) as [m|] eqn:E.
  - destruct (msg_complete _); cbn [fst snd]; split; try reflexivity.
    + apply lookup_remove_same.
    + apply lookup_put_same.
  - cbn [fst snd]. split; [apply lookup_put_same|reflexivity].
Qed.

Lemma asm_start_other a s s' fid c d now :
  s <> s' -> lookup s (fst (asm_start a s' fid c d now)) = lookup s a.
Proof.
  intros Hne. unfold asm_start. destruct (count_new fid); [|reflexivity].
  destruct (lookup s' a); destruct (msg_complete _); cbn [fst];
    first [reflexivity | now apply lookup_remove_other | now apply lookup_put_other].
Qed.

Lemma asm_add_other a s s' fid d now :
  s <> s' -> lookup s (fst (asm_add a s' fid d now)) = lookup s a.
Proof.
  intros Hne. unfold asm_add.
  destruct (lookup s' a); [destruct (msg_complete _)|]; cbn [fst];
    first [now apply lookup_remove_other | now apply lookup_put_other].
Qed.
