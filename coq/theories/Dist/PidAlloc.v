(* Model of crates/edp_client/src/pid_allocator.rs (PidAllocator::allocate) and of
   Node::make_reference (three fetch_add on a u32 counter).  Definitions only. *)
From EDP Require Import Base.Bytes Gen.PidConsts.

Record pstate := { next_id : N; next_serial : N; creation : N }.
Record pid := { p_id : N; p_serial : N; p_creation : N }.

Definition two32 : N := 4294967296.
Definition two64 : N := 18446744073709551616.

(* allocate, under the lock (load id; load serial; compute; store) *)
Definition allocate (st : pstate) : pid * pstate :=
  let id := next_id st in
  let s := next_serial st in
  if max_processes_per_node <=? id then
    ({| p_id := id; p_serial := (s + 1) mod two32; p_creation := creation st |},
     {| next_id := 1; next_serial := (s + 1) mod two64; creation := creation st |})
  else
    ({| p_id := id; p_serial := s mod two32; p_creation := creation st |},
     {| next_id := id + 1; next_serial := s; creation := creation st |}).

Fixpoint allocs (k : nat) (st : pstate) : list pid :=
  match k with
  | O => []
  | S k' => let '(p, st') := allocate st in p :: allocs k' st'
  end.

Fixpoint after (k : nat) (st : pstate) : pstate :=
  match k with O => st | S k' => after k' (snd (allocate st)) end.

(* make_reference: three consecutive fetch_add(1) on a wrapping u32 counter *)
Definition fetch_add (c : N) : N * N := (c, (c + 1) mod two32).
Definition make_ref (c : N) : list N * N :=
  let '(a, c1) := fetch_add c in let '(b, c2) := fetch_add c1 in let '(d, c3) := fetch_add c2 in
  ([a; b; d], c3).

Fixpoint refs (k : nat) (c : N) : list (list N) :=
  match k with O => [] | S k' => let '(r, c') := make_ref c in r :: refs k' c' end.
